(* C18, round-trip half: modpath_to_modname (modname_to_modpath n) for every tree,
   every list of roots, every name and every flag combination. *)
From LP Require Import Prelude.Py Prelude.PyLemmas
     Resolve.FsModel Resolve.FsModelLemmas Resolve.ModPath Resolve.ModPathSpec Resolve.ModPathLookup.

(* ---- names --------------------------------------------------------------------- *)
Lemma name_ok_nodot c : name_ok c = true -> no_char dot c = true.
Proof. unfold name_ok. intros H. apply andb_prop in H as [_ H]. exact H. Qed.

Lemma name_ok_nonempty c : name_ok c = true -> c <> EmptyString.
Proof. unfold name_ok. intros H. apply andb_prop in H as [H _]. destruct c; [discriminate|congruence]. Qed.

Lemma name_ok_not_init c : name_ok c = true -> String.eqb c INIT = false.
Proof.
  intros H. destruct (String.eqb_spec c INIT) as [->|]; [|reflexivity]. vm_compute in H. discriminate.
Qed.

Lemma name_ok_not_main c : name_ok c = true -> String.eqb c MAIN = false.
Proof.
  intros H. destruct (String.eqb_spec c MAIN) as [->|]; [|reflexivity]. vm_compute in H. discriminate.
Qed.

Lemma py_eqb c c' :
  name_ok c = true -> name_ok c' = true -> String.eqb (py c) (py c') = String.eqb c c'.
Proof.
  intros H H'. destruct (String.eqb_spec c c') as [->|Hne]; [apply String.eqb_refl|].
  destruct (String.eqb_spec (py c) (py c')) as [E|]; [|reflexivity]. exfalso. apply Hne.
  unfold py in E. change ".py"%string with (String dot "py") in E.
  eapply app_dot_inj; [apply name_ok_nodot; exact H|apply name_ok_nodot; exact H'|exact E].
Qed.

Lemma cut_first_dot_id l : forallb (no_char dot) l = true -> cut_first_dot l = l.
Proof.
  induction l as [|c l IH]; cbn [forallb cut_first_dot]; [reflexivity|].
  intros H. apply andb_prop in H as [H1 H2]. rewrite H1, IH by exact H2. reflexivity.
Qed.

Lemma names_nodot l : forallb name_ok l = true -> forallb (no_char dot) l = true.
Proof.
  induction l as [|c l IH]; cbn [forallb]; [reflexivity|]. intros H. apply andb_prop in H as [H1 H2].
  rewrite (name_ok_nodot _ H1), IH by exact H2. reflexivity.
Qed.

Lemma last_app_single {A} (l : list A) x d : last (l ++ [x]) d = x.
Proof. apply last_last. Qed.

Lemma forallb_snoc {A} (f : A -> bool) l x : forallb f (l ++ [x]) = forallb f l && f x.
Proof. rewrite forallb_app. cbn [forallb]. rewrite andb_true_r. reflexivity. Qed.

(* ---- climbing ------------------------------------------------------------------- *)
Lemma climb_down fs r l parts :
  exists_ fs (r ++ [INIT]) = false -> pkgs_down fs r l = true ->
  climb fs (rev (r ++ l)) parts = (r, l ++ parts).
Proof.
  intros Hr. revert parts; induction l as [|x l IH] using rev_ind; intros parts Hd.
  - rewrite app_nil_r. cbn [app]. destruct (rev r) as [|y up] eqn:E.
    + apply (f_equal (@rev name)) in E. rewrite rev_involutive in E. subst r. reflexivity.
    + cbn [climb]. rewrite <- E, rev_involutive, Hr. reflexivity.
  - rewrite pkgs_down_snoc in Hd. apply andb_prop in Hd as [Hd Hx].
    rewrite app_assoc, rev_unit. cbn [climb]. cbn [rev]. rewrite rev_involutive.
    replace (((r ++ l) ++ [x]) ++ [INIT]) with (r ++ l ++ [x; INIT])
      by (rewrite <- !app_assoc; reflexivity).
    rewrite Hx. rewrite IH by exact Hd. rewrite <- app_assoc. reflexivity.
Qed.

(* the part of modpath_to_modname after the existence check and normalisation *)
Definition name_of (fs : node) (q : path) : res (list name) :=
  match split_modpath fs q with
  | Err e => Err e
  | Ok (_, parts) => Ok (cut_first_dot (strip_ext parts))
  end.

Lemma m2n_name_of fs p hi hm :
  exists_ fs p = true -> modpath_to_modname fs p hi hm = name_of fs (normalize fs p hi hm).
Proof. intros H. unfold modpath_to_modname, name_of. rewrite H. reflexivity. Qed.

Lemma pkgs_down_last_init fs r l x :
  pkgs_down fs r (l ++ [x]) = true -> exists_ fs ((r ++ l ++ [x]) ++ [INIT]) = true.
Proof.
  rewrite pkgs_down_snoc. intros H. apply andb_prop in H as [_ H].
  rewrite <- !app_assoc. exact H.
Qed.

(* a package directory r/l *)
Lemma name_of_dir fs r l :
  exists_ fs (r ++ [INIT]) = false -> l <> [] -> forallb name_ok l = true ->
  pkgs_down fs r l = true ->
  name_of fs (r ++ l) = Ok l.
Proof.
  intros Hr Hl Hn Hd. destruct (exists_last Hl) as [l' [x ->]].
  pose proof (pkgs_down_last_init _ _ _ _ Hd) as Hi.
  pose proof (exists_prefix _ _ _ Hi) as He.
  unfold name_of, split_modpath. rewrite He, Hi. cbn [negb]. rewrite andb_false_r.
  unfold dirname, basename. rewrite app_assoc, removelast_last, last_last.
  rewrite pkgs_down_snoc in Hd. apply andb_prop in Hd as [Hd _].
  rewrite climb_down by assumption.
  unfold strip_ext. rewrite removelast_last, last_last.
  rewrite forallb_snoc in Hn. apply andb_prop in Hn as [Hn1 Hn2].
  rewrite splitext_nodot by (apply name_ok_nodot; exact Hn2). cbn [fst].
  rewrite cut_first_dot_id; [reflexivity|].
  apply names_nodot. rewrite forallb_snoc, Hn1, Hn2. reflexivity.
Qed.

(* a module file r/pre/c.py *)
Lemma name_of_file fs r pre c :
  exists_ fs (r ++ [INIT]) = false -> forallb name_ok pre = true -> name_ok c = true ->
  pkgs_down fs r pre = true -> isfile fs (r ++ pre ++ [py c]) = true ->
  name_of fs (r ++ pre ++ [py c]) = Ok (pre ++ [c]).
Proof.
  intros Hr Hn Hc Hd Hf.
  unfold name_of, split_modpath. rewrite (isfile_exists _ _ Hf), (isfile_not_isdir _ _ Hf).
  cbn [negb andb]. unfold dirname, basename. rewrite app_assoc, removelast_last, last_last.
  rewrite climb_down by assumption.
  unfold strip_ext. rewrite removelast_last, last_last. unfold py.
  rewrite splitext_py by (try apply name_ok_nonempty; try apply name_ok_nodot; exact Hc). cbn [fst].
  rewrite cut_first_dot_id; [reflexivity|].
  apply names_nodot. rewrite forallb_snoc, Hn, Hc. reflexivity.
Qed.

(* ---- normalize_modpath on the shapes the lookup returns --------------------------- *)
Lemma normalize_plain fs p hm :
  String.eqb (basename p) INIT = false -> String.eqb (basename p) MAIN = false ->
  normalize fs p true hm = p.
Proof. intros H1 H2. unfold normalize. rewrite H1. destruct hm; rewrite ?H2; reflexivity. Qed.

Lemma init_not_main : String.eqb INIT MAIN = false.
Proof. reflexivity. Qed.

Lemma normalize_add_init fs p hm :
  exists_ fs (p ++ [INIT]) = true -> normalize fs p false hm = p ++ [INIT].
Proof.
  intros H. unfold normalize. rewrite H. unfold basename. rewrite last_last, init_not_main.
  destruct hm; reflexivity.
Qed.

Lemma normalize_file fs d f hi hm :
  isfile fs (d ++ [f]) = true ->
  normalize fs (d ++ [f]) hi hm =
  if hi && String.eqb f INIT
  then (if String.eqb (basename d) MAIN && exists_ fs (dirname d ++ [INIT]) then dirname d else d)
  else if hm && String.eqb f MAIN && exists_ fs (d ++ [INIT]) then d else d ++ [f].
Proof.
  intros Hf. unfold normalize.
  replace (basename (d ++ [f])) with f by (unfold basename; rewrite last_last; reflexivity).
  replace (dirname (d ++ [f])) with d by (unfold dirname; rewrite removelast_last; reflexivity).
  rewrite (file_no_child _ _ [INIT] Hf) by discriminate.
  destruct hi; cbn [andb].
  - destruct (String.eqb f INIT) eqn:E.
    + destruct (String.eqb (basename d) MAIN); cbn [andb]; [|reflexivity].
      destruct (exists_ fs (dirname d ++ [INIT])); reflexivity.
    + replace (basename (d ++ [f])) with f by (unfold basename; rewrite last_last; reflexivity).
      replace (dirname (d ++ [f])) with d by (unfold dirname; rewrite removelast_last; reflexivity).
      destruct hm; cbn [andb]; [|reflexivity]. destruct (String.eqb f MAIN); cbn [andb]; [|reflexivity].
      destruct (exists_ fs (d ++ [INIT])); reflexivity.
  - replace (basename (d ++ [f])) with f by (unfold basename; rewrite last_last; reflexivity).
    replace (dirname (d ++ [f])) with d by (unfold dirname; rewrite removelast_last; reflexivity).
    destruct hm; cbn [andb]; [|reflexivity]. destruct (String.eqb f MAIN); cbn [andb]; [|reflexivity].
    destruct (exists_ fs (d ++ [INIT])); reflexivity.
Qed.

Lemma basename_app r l : l <> [] -> basename (r ++ l) = last l EmptyString.
Proof.
  intros Hl. destruct (exists_last Hl) as [l' [x ->]]. unfold basename.
  rewrite app_assoc, !last_last. reflexivity.
Qed.

Lemma last_name_ok l : l <> [] -> forallb name_ok l = true -> name_ok (last l EmptyString) = true.
Proof.
  intros Hl H. destruct (exists_last Hl) as [l' [x ->]]. rewrite last_last.
  rewrite forallb_snoc in H. apply andb_prop in H as [_ H]. exact H.
Qed.

Lemma normalize_pkgdir fs r l hm :
  l <> [] -> forallb name_ok l = true -> normalize fs (r ++ l) true hm = r ++ l.
Proof.
  intros Hl Hn. pose proof (last_name_ok _ Hl Hn) as Hx.
  apply normalize_plain; rewrite basename_app by exact Hl;
    [apply name_ok_not_init|apply name_ok_not_main]; exact Hx.
Qed.

(* ---- the round trip ------------------------------------------------------------------ *)
Lemma init_is_py : INIT = py "__init__". Proof. reflexivity. Qed.
Lemma main_is_py : MAIN = py "__main__". Proof. reflexivity. Qed.
Lemma dunder_init_ok : name_ok "__init__" = true. Proof. reflexivity. Qed.
Lemma dunder_main_ok : name_ok "__main__" = true. Proof. reflexivity. Qed.

Lemma py_eqb_init c : name_ok c = true -> String.eqb (py c) INIT = String.eqb c "__init__".
Proof. intros H. rewrite init_is_py. apply py_eqb; [exact H|reflexivity]. Qed.

Lemma py_eqb_main c : name_ok c = true -> String.eqb (py c) MAIN = String.eqb c "__main__".
Proof. intros H. rewrite main_is_py. apply py_eqb; [exact H|reflexivity]. Qed.

Lemma pkgs_down_nonempty_init fs r l :
  l <> [] -> pkgs_down fs r l = true -> exists_ fs ((r ++ l) ++ [INIT]) = true.
Proof.
  intros Hl Hd. destruct (exists_last Hl) as [l' [x ->]]. apply pkgs_down_last_init. exact Hd.
Qed.

(* package case: the lookup returned the directory r/comps *)
Lemma roundtrip_pkg fs r comps hi hm :
  exists_ fs (r ++ [INIT]) = false -> comps <> [] -> forallb name_ok comps = true ->
  pkgs_down fs r (removelast comps) = true -> isfile fs ((r ++ comps) ++ [INIT]) = true ->
  modpath_to_modname fs (normalize fs (r ++ comps) hi hm) hi hm
  = Ok (if hi then comps else comps ++ ["__init__"]).
Proof.
  intros Hr Hc Hn Hd Hf.
  assert (Hd' : pkgs_down fs r comps = true).
  { destruct (exists_last Hc) as [l' [x E]]. rewrite E in *. rewrite removelast_last in Hd.
    rewrite pkgs_down_snoc, Hd. rewrite <- !app_assoc in Hf. cbn [app] in Hf.
    rewrite (isfile_exists _ _ Hf). reflexivity. }
  destruct hi.
  - rewrite normalize_pkgdir by assumption.
    rewrite m2n_name_of by (exact (exists_prefix _ _ _ (isfile_exists _ _ Hf))).
    rewrite normalize_pkgdir by assumption. apply name_of_dir; assumption.
  - rewrite normalize_add_init by (apply isfile_exists; exact Hf).
    rewrite m2n_name_of by (apply isfile_exists; exact Hf).
    change ((r ++ comps) ++ [INIT]) with ((r ++ comps) ++ [INIT]).
    rewrite normalize_file by exact Hf. cbn [andb].
    destruct hm; cbn [andb]; rewrite ?init_not_main; cbn [andb].
    + rewrite <- app_assoc, init_is_py. apply name_of_file; try assumption; try reflexivity.
      rewrite <- init_is_py, app_assoc. exact Hf.
    + rewrite <- app_assoc, init_is_py. apply name_of_file; try assumption; try reflexivity.
      rewrite <- init_is_py, app_assoc. exact Hf.
Qed.

(* module case: the lookup returned the file r/pre/cn.py *)
Lemma roundtrip_mod fs r pre cn hi hm :
  no_dir_named INIT fs = true ->
  exists_ fs (r ++ [INIT]) = false -> forallb name_ok pre = true -> name_ok cn = true ->
  pkgs_down fs r pre = true -> isfile fs (r ++ pre ++ [py cn]) = true ->
  modpath_to_modname fs (normalize fs (r ++ pre ++ [py cn]) hi hm) hi hm
  = Ok (expected_name hi hm (pre ++ [cn]) false).
Proof.
  intros Hreg Hr Hn Hc Hd Hf.
  unfold expected_name. rewrite removelast_last, last_last.
  assert (Hpre : pre <> [] -> exists_ fs ((r ++ pre) ++ [INIT]) = true)
    by (intros H; apply pkgs_down_nonempty_init; assumption).
  assert (Hfile : name_of fs (r ++ pre ++ [py cn]) = Ok (pre ++ [cn]))
    by (apply name_of_file; assumption).
  assert (Hex : exists_ fs (r ++ pre ++ [py cn]) = true) by (apply isfile_exists; exact Hf).
  rewrite (app_assoc r pre [py cn]) in *.
  rewrite (normalize_file fs (r ++ pre) (py cn) hi hm Hf).
  rewrite ?py_eqb_init, ?py_eqb_main by assumption.
  destruct hi; cbn [andb].
  - destruct (String.eqb cn "__init__") eqn:Einit.
    + (* a.__init__ -> the package a *)
      destruct pre as [|p0 pre'].
      { exfalso. apply String.eqb_eq in Einit. subst cn. rewrite app_nil_r in Hf.
        change (py "__init__") with INIT in Hf. rewrite (isfile_exists _ _ Hf) in Hr. discriminate. }
      assert (Hne : p0 :: pre' <> []) by discriminate.
      rewrite basename_app by exact Hne.
      rewrite (name_ok_not_main _ (last_name_ok _ Hne Hn)). cbn [andb].
      rewrite m2n_name_of by (exact (exists_prefix _ _ _ (Hpre Hne))).
      rewrite normalize_pkgdir by assumption.
      rewrite name_of_dir by assumption. reflexivity.
    + destruct hm; cbn [andb].
      * destruct (String.eqb cn "__main__") eqn:Emain; cbn [andb].
        -- destruct pre as [|p0 pre'].
           ++ rewrite app_nil_r in *. rewrite Hr. cbn [list_empty negb andb].
              rewrite m2n_name_of by exact Hex.
              rewrite (normalize_file fs r (py cn) true true Hf).
              rewrite ?py_eqb_init, ?py_eqb_main by assumption.
              rewrite Einit, Emain, Hr. cbn [andb]. exact Hfile.
           ++ assert (Hne : p0 :: pre' <> []) by discriminate.
              rewrite (Hpre Hne). cbn [list_empty negb andb].
              rewrite m2n_name_of by (exact (exists_prefix _ _ _ (Hpre Hne))).
              rewrite normalize_pkgdir by assumption.
              rewrite name_of_dir by assumption. reflexivity.
        -- rewrite m2n_name_of by exact Hex.
           rewrite (normalize_file fs (r ++ pre) (py cn) true true Hf).
           rewrite ?py_eqb_init, ?py_eqb_main by assumption.
           rewrite Einit, Emain. cbn [andb]. exact Hfile.
      * rewrite m2n_name_of by exact Hex.
        rewrite (normalize_file fs (r ++ pre) (py cn) true false Hf).
        rewrite ?py_eqb_init, ?py_eqb_main by assumption.
        rewrite Einit. cbn [andb]. exact Hfile.
  - destruct hm; cbn [andb].
    + destruct (String.eqb cn "__main__") eqn:Emain; cbn [andb].
      * destruct pre as [|p0 pre'].
        -- rewrite app_nil_r in *. rewrite Hr. cbn [list_empty negb andb].
           rewrite m2n_name_of by exact Hex.
           rewrite (normalize_file fs r (py cn) false true Hf).
           rewrite ?py_eqb_init, ?py_eqb_main by assumption.
           rewrite Emain, Hr. cbn [andb]. exact Hfile.
        -- assert (Hne : p0 :: pre' <> []) by discriminate.
           rewrite (Hpre Hne). cbn [list_empty negb andb].
           rewrite m2n_name_of by (exact (exists_prefix _ _ _ (Hpre Hne))).
           rewrite normalize_add_init by (exact (Hpre Hne)).
           pose proof (Hpre Hne) as Hi.
           rewrite (no_dir_named_exists_isfile INIT fs (r ++ p0 :: pre') Hreg) in Hi.
           rewrite <- app_assoc, init_is_py.
           apply name_of_file; try assumption; try reflexivity.
           rewrite <- init_is_py, app_assoc. exact Hi.
      * rewrite m2n_name_of by exact Hex.
        rewrite (normalize_file fs (r ++ pre) (py cn) false true Hf).
        rewrite ?py_eqb_init, ?py_eqb_main by assumption.
        rewrite Emain. cbn [andb]. exact Hfile.
    + rewrite m2n_name_of by exact Hex.
      rewrite (normalize_file fs (r ++ pre) (py cn) false false Hf). cbn [andb]. exact Hfile.
Qed.

Lemma roots_plain_in fs roots r :
  roots_plain fs roots = true -> In r roots -> exists_ fs (r ++ [INIT]) = false.
Proof.
  unfold roots_plain. rewrite forallb_forall. intros H Hin. specialize (H r Hin).
  destruct (exists_ fs (r ++ [INIT])); [discriminate|reflexivity].
Qed.

Lemma names_ok_parts comps :
  names_ok comps = true -> comps <> [] /\ forallb name_ok comps = true.
Proof.
  unfold names_ok. intros H. apply andb_prop in H as [H1 H2]. split; [|exact H2].
  destruct comps; [discriminate|discriminate].
Qed.

(* main statement: for the raw lookup result p, the round trip gives expected_name *)
Lemma roundtrip fs roots comps hi hm p :
  no_dir_named INIT fs = true -> roots_plain fs roots = true -> names_ok comps = true ->
  syspath_lookup fs roots comps = Some p ->
  modpath_to_modname fs (normalize fs p hi hm) hi hm
  = Ok (expected_name hi hm comps (isdir fs p)).
Proof.
  intros Hreg Hroots Hnames Hl.
  destruct (names_ok_parts _ Hnames) as [Hne Hn].
  destruct (lookup_is_real _ _ _ _ Hl) as [r [Hin [[-> [Hf Hd]]|[-> [Hf Hd]]]]];
    pose proof (roots_plain_in _ _ _ Hroots Hin) as Hr.
  - assert (Hdir : isdir fs (r ++ comps) = true)
      by (apply exists_child_isdir with (c := INIT); apply isfile_exists; exact Hf).
    rewrite Hdir. unfold expected_name. apply roundtrip_pkg; assumption.
  - destruct (exists_last Hne) as [pre [cn E]]. subst comps.
    unfold with_last_py in *. rewrite removelast_last, last_last in *.
    rewrite forallb_snoc in Hn. apply andb_prop in Hn as [Hn1 Hn2].
    rewrite (isfile_not_isdir _ _ Hf). apply roundtrip_mod; assumption.
Qed.

(* corollary: ordinary names (last component neither __init__ nor __main__) with
   hide_init=True come back unchanged, whatever hide_main is *)
Lemma expected_name_plain hm (comps : list name) k :
  String.eqb (last comps EmptyString) "__init__" = false ->
  String.eqb (last comps EmptyString) "__main__" = false ->
  expected_name true hm comps k = comps.
Proof.
  intros H1 H2. unfold expected_name. cbv zeta. destruct k; [reflexivity|]. rewrite H1, H2.
  cbn [andb]. rewrite andb_false_r. reflexivity.
Qed.

(* default flags (hide_init=True, hide_main=False): everything but a.__init__ comes back *)
Lemma expected_name_default (comps : list name) k :
  String.eqb (last comps EmptyString) "__init__" = false ->
  expected_name true false comps k = comps.
Proof. intros H1. unfold expected_name. cbv zeta. destruct k; [reflexivity|]. rewrite H1. reflexivity. Qed.

(* ---- the refutation witness: a search root that is itself a package ------------------- *)
Definition rootpkg_fs : node := Dir [("r0", Dir [(INIT, File); ("sib.py", File)])].
Definition rootpkg_roots : list path := [["r0"]].

Lemma rootpkg_witness :
  wf_node rootpkg_fs = true /\ no_dir_named INIT rootpkg_fs = true /\ names_ok ["sib"] = true
  /\ import_name rootpkg_fs rootpkg_roots ["sib"] = Found ["r0"; "sib.py"] false
  /\ modname_to_modpath rootpkg_fs rootpkg_roots ["sib"] true false = Some ["r0"; "sib.py"]
  /\ modpath_to_modname rootpkg_fs ["r0"; "sib.py"] true false = Ok ["r0"; "sib"]
  /\ roots_plain rootpkg_fs rootpkg_roots = false.
Proof. vm_compute. repeat split; reflexivity. Qed.

Lemma roundtrip_full fs roots comps hide_init hide_main p :
  no_dir_named INIT fs = true -> roots_plain fs roots = true -> names_ok comps = true ->
  syspath_lookup fs roots comps = Some p ->
  modname_to_modpath fs roots comps hide_init hide_main = Some (normalize fs p hide_init hide_main)
  /\ modpath_to_modname fs (normalize fs p hide_init hide_main) hide_init hide_main
     = Ok (expected_name hide_init hide_main comps (isdir fs p)).
Proof.
  intros H1 H2 H3 H4. split.
  - unfold modname_to_modpath. rewrite H4. reflexivity.
  - apply roundtrip with (roots := roots); assumption.
Qed.

Lemma roundtrip_default fs roots (comps : list name) p :
  no_dir_named INIT fs = true -> roots_plain fs roots = true -> names_ok comps = true ->
  String.eqb (last comps EmptyString) "__init__" = false ->
  modname_to_modpath fs roots comps true false = Some p ->
  modpath_to_modname fs p true false = Ok comps.
Proof.
  intros H1 H2 H3 H4 H5. unfold modname_to_modpath in H5.
  destruct (syspath_lookup fs roots comps) as [q|] eqn:E; [|discriminate]. injection H5 as <-.
  rewrite (roundtrip fs roots comps true false q H1 H2 H3 E).
  rewrite expected_name_default by exact H4. reflexivity.
Qed.

Lemma rootpkg_refuted :
  exists fs roots comps p,
    wf_node fs = true /\ no_dir_named INIT fs = true /\ names_ok comps = true
    /\ import_name fs roots comps = Found p false
    /\ modname_to_modpath fs roots comps true false = Some p
    /\ modpath_to_modname fs p true false = Ok ("r0" :: comps).
Proof.
  exists rootpkg_fs, rootpkg_roots, ["sib"], ["r0"; "sib.py"].
  pose proof rootpkg_witness as H. tauto.
Qed.
