(* E5 - model of ProfmodExtractor._get_modnames_to_profile_from_prof_mod
   (line_profiler/autoprofile/profmod_extractor.py): the glue that turns the
   -p / prof_mod entries (dotted names or paths) into the list of dotted names to
   profile, through modname_to_modpath, modpath_to_modname and
   package_modpaths(with_pkg=True).  Executable definitions only. *)
From LP Require Import Prelude.Py Resolve.FsModel Resolve.ModPath.

Inductive pentry :=
| PName (comps : list name)      (* a dotted name, as its components *)
| PPath (p : path).              (* an absolute path below the scenario's base directory *)

(* modname.replace('.', os.path.sep) on a path string: every component is cut at its dots *)
Definition mangle (p : path) : path := flat_map (split dot) p.

(* _isvalid(modpath, base) for an ABSOLUTE modpath (join(base, abs) == abs): climb from
   dirname(modpath) until the directory equals base; the scenario's base directory (the
   model's root) has no __init__.py, so the climb fails there. *)
Fixpoint isvalid_abs (fs : node) (base : path) (sub_rev : list name) : bool :=
  if path_eqb (rev sub_rev) base then true
  else match sub_rev with
       | [] => false
       | _ :: up => if exists_ fs (rev sub_rev ++ [INIT]) then isvalid_abs fs base up else false
       end.

Definition check_abs (fs : node) (dpath : path) (m : path) : option path :=
  if exists_ fs m && isfile fs (m ++ [INIT]) && isvalid_abs fs dpath (rev (removelast m))
  then Some m
  else
    let m' := with_last_py m in
    if isfile fs m' && isvalid_abs fs dpath (rev (removelast m')) then Some m' else None.

Fixpoint lookup_abs (fs : node) (roots : list path) (m : path) : option path :=
  match roots with
  | [] => None
  | r :: rs => match check_abs fs r m with Some p => Some p | None => lookup_abs fs rs m end
  end.

(* cls._is_path(text): '/' in text or text.endswith('.py'); for a dotted name the second *)
Definition name_is_path (comps : list name) : bool :=
  (2 <=? Z.of_nat (length comps)) && String.eqb (last comps EmptyString) "py".

Inductive target := Skip | Raw (s : string) | At (p : path).

(* the first half of the loop body: from the entry to the path that gets listed.
   os.path.exists(mod) for a dotted name is taken relative to an empty working directory. *)
Definition entry_target (fs : node) (roots : list path) (script : path) (e : pentry) : target :=
  match e with
  | PName comps =>
      match modname_to_modpath fs roots comps true false with
      | Some p => At p
      | None => if name_is_path comps then Skip else Raw (join "." comps)
      end
  | PPath p =>
      if path_eqb p script then Skip
      else match lookup_abs fs roots (mangle p) with
           | Some q => At (normalize fs q true false)
           | None => if exists_ fs p then At p else Skip
           end
  end.

Definition add_new (acc : list string) (s : string) : list string :=
  if str_in s acc then acc else acc ++ [s].

Fixpoint names_of_paths (fs : node) (l : list path) : res (list string) :=
  match l with
  | [] => Ok []
  | p :: t =>
      match modpath_to_modname fs p true false with
      | Err e => Err e
      | Ok nm => match names_of_paths fs t with Err e => Err e | Ok r => Ok (join "." nm :: r) end
      end
  end.

Definition select_entry (fs : node) (roots : list path) (script : path)
           (acc : list string) (e : pentry) : res (list string) :=
  match entry_target fs roots script e with
  | Skip => Ok acc
  | Raw s => Ok (acc ++ [s])
  | At p =>
      match modpath_to_modname fs p true false with
      | Err _ => Ok acc                                   (* except ValueError: continue *)
      | Ok nm =>
          match names_of_paths fs (package_modpaths_pkg fs p) with
          | Err e => Err e
          | Ok l => Ok (fold_left add_new (join "." nm :: l) acc)
          end
      end
  end.

Fixpoint select_loop (fs : node) (roots : list path) (script : path)
         (acc : list string) (entries : list pentry) : res (list string) :=
  match entries with
  | [] => Ok acc
  | e :: t => match select_entry fs roots script acc e with
              | Err x => Err x
              | Ok acc' => select_loop fs roots script acc' t
              end
  end.

(* new_sys_path = [dirname(script_file)] + sys.path *)
Definition modnames_to_profile (fs : node) (sys_path : list path) (script : path)
           (entries : list pentry) : res (list string) :=
  select_loop fs (dirname script :: sys_path) script [] entries.
