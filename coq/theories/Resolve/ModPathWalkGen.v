(* The package walk and its characterisation for an arbitrary file-name filter P
   (P = py_module_fname: package_modpaths; P = py_fname: what with_pkg=True adds up to).
   Same proofs as ModPathWalk.v, with the filter abstract. *)
From Coq Require Import FinFun.
From LP Require Import Prelude.Py Prelude.PyLemmas
     Resolve.FsModel Resolve.FsModelLemmas Resolve.ModPath Resolve.ModPathSpec Resolve.ModPathWalk.

Section Filter.
Variable P : name -> bool.

Fixpoint walkP (dpath : path) (n : node) : list path :=
  match n with
  | File => []
  | Dir ch =>
      if is_some (assoc INIT ch)
      then map (fun f => dpath ++ [f]) (filter P (fnames ch))
           ++ flat_map (fun kv => match snd kv with
                                  | File => []
                                  | Dir _ => walkP (dpath ++ [fst kv]) (snd kv)
                                  end) ch
      else []
  end.

Fixpoint listed_relP (n : node) (rel : list name) : bool :=
  match n, rel with
  | Dir ch, [f] =>
      is_some (assoc INIT ch)
      && match assoc f ch with Some File => P f | _ => false end
  | Dir ch, d :: rel' =>
      is_some (assoc INIT ch)
      && match assoc d ch with Some (Dir c) => listed_relP (Dir c) rel' | _ => false end
  | _, _ => false
  end.

Definition listedP (fs : node) (pkg p : path) : bool :=
  is_prefix pkg p
  && match get fs pkg with
     | Some n => listed_relP n (skipn (length pkg) p)
     | None => false
     end.

Definition listed_pathsP (fs : node) (pkg p : path) : bool :=
  let rel := skipn (length pkg) p in
  is_prefix pkg p && negb (list_empty rel) && isfile fs p && P (basename p)
  && inits_down fs pkg rel.

Lemma listedP_rel_nil n : listed_relP n [] = false.
Proof. destruct n; reflexivity. Qed.

Lemma listedP_rel_file rel : listed_relP File rel = false.
Proof. destruct rel; reflexivity. Qed.

Lemma listedP_rel_cons ch d rel' :
  listed_relP (Dir ch) (d :: rel') =
  is_some (assoc INIT ch) &&
  match rel' with
  | [] => match assoc d ch with Some File => P d | _ => false end
  | _ :: _ => match assoc d ch with Some (Dir c) => listed_relP (Dir c) rel' | _ => false end
  end.
Proof. destruct rel'; reflexivity. Qed.

Lemma fnames_in f ch : In f (fnames ch) <-> In (f, File) ch.
Proof.
  unfold fnames. rewrite in_map_iff. split.
  - intros [[k v] [E Hin]]. apply filter_In in Hin as [Hin Hf]. cbn [fst snd] in *. subst k.
    destruct v; [exact Hin|discriminate].
  - intros Hin. exists (f, File). split; [reflexivity|]. apply filter_In. split; [exact Hin|reflexivity].
Qed.

Lemma wf_dir ch :
  wf_node (Dir ch) = true ->
  NoDup (map fst ch) /\ forall kv, In kv ch -> wf_node (snd kv) = true.
Proof.
  cbn [wf_node]. intros H. apply andb_prop in H as [H1 H2]. split.
  - apply nodupb_NoDup; exact H1.
  - rewrite forallb_forall in H2. exact H2.
Qed.

(* ---- membership -------------------------------------------------------------------- *)
Lemma walkP_spec n :
  forall dpath p, wf_node n = true ->
    (In p (walkP dpath n) <-> exists rel, p = dpath ++ rel /\ listed_relP n rel = true).
Proof.
  induction n as [|ch IH] using node_ind'; intros dpath p Hwf.
  - cbn [walkP]. split; [contradiction|]. intros [rel [_ H]]. rewrite listedP_rel_file in H. discriminate.
  - destruct (wf_dir _ Hwf) as [Hnd Hch]. rewrite Forall_forall in IH.
    cbn [walkP]. destruct (is_some (assoc INIT ch)) eqn:Ei.
    + rewrite in_app_iff. split.
      * intros [Hfile|Hdir].
        -- apply in_map_iff in Hfile as [f [<- Hf]]. apply filter_In in Hf as [Hin Hpy].
           apply fnames_in in Hin. exists [f]. split; [reflexivity|].
           rewrite listedP_rel_cons, Ei, (in_assoc _ _ _ Hnd Hin). exact Hpy.
        -- apply in_flat_map in Hdir as [[d c] [Hin Hp]]. cbn [fst snd] in Hp.
           destruct c as [|c0]; [contradiction|].
           apply (IH _ Hin (dpath ++ [d]) p (Hch _ Hin)) in Hp as [rel' [-> Hl]].
           exists (d :: rel'). split; [rewrite <- app_assoc; reflexivity|].
           rewrite listedP_rel_cons, Ei. destruct rel' as [|x rel''].
           ++ rewrite listedP_rel_nil in Hl. discriminate.
           ++ rewrite (in_assoc _ _ _ Hnd Hin). exact Hl.
      * intros [rel [-> Hl]]. destruct rel as [|d rel']; [rewrite listedP_rel_nil in Hl; discriminate|].
        rewrite listedP_rel_cons, Ei in Hl. cbn [andb] in Hl. destruct rel' as [|x rel''].
        -- left. destruct (assoc d ch) as [[|c0]|] eqn:Ea; try discriminate.
           apply in_map_iff. exists d. split; [reflexivity|]. apply filter_In. split; [|exact Hl].
           apply fnames_in. apply assoc_in. exact Ea.
        -- right. destruct (assoc d ch) as [[|c0]|] eqn:Ea; try discriminate.
           pose proof (assoc_in _ _ _ Ea) as Hin.
           apply in_flat_map. exists (d, Dir c0). split; [exact Hin|]. cbn [fst snd].
           apply (IH _ Hin (dpath ++ [d]) _ (Hch _ Hin)). exists (x :: rel'').
           split; [rewrite <- app_assoc; reflexivity|exact Hl].
    + split; [contradiction|]. intros [rel [_ Hl]].
      destruct rel as [|d rel']; [rewrite listedP_rel_nil in Hl; discriminate|].
      rewrite listedP_rel_cons, Ei in Hl. discriminate.
Qed.

Lemma listedP_rel_paths fs :
  forall rel pkg n, get fs pkg = Some n ->
    listed_relP n rel =
    negb (list_empty rel) && isfile fs (pkg ++ rel) && P (last rel EmptyString)
    && inits_down fs pkg rel.
Proof.
  induction rel as [|d rel' IH]; intros pkg n Hg.
  - rewrite listedP_rel_nil. reflexivity.
  - cbn [list_empty negb andb inits_down].
    destruct n as [|ch].
    + rewrite listedP_rel_file. unfold isfile. rewrite get_app, Hg. reflexivity.
    + rewrite listedP_rel_cons, (exists_init_assoc _ _ _ Hg).
      destruct (is_some (assoc INIT ch)); cbn [andb]; [|rewrite andb_false_r; reflexivity].
      destruct rel' as [|x rel''].
      * cbn [last inits_down]. rewrite andb_true_r. unfold isfile at 1. rewrite get_app, Hg. cbn [get].
        destruct (assoc d ch) as [[|c0]|]; reflexivity.
      * change (last (d :: x :: rel'') EmptyString) with (last (x :: rel'') EmptyString).
        assert (Hpath : pkg ++ d :: x :: rel'' = (pkg ++ [d]) ++ x :: rel'')
          by (rewrite <- app_assoc; reflexivity).
        destruct (assoc d ch) as [[|c0]|] eqn:Ea.
        -- unfold isfile. rewrite Hpath, get_app. rewrite get_app, Hg. cbn [get]. rewrite Ea. reflexivity.
        -- rewrite (IH (pkg ++ [d]) (Dir c0)) by (rewrite get_app, Hg; cbn [get]; rewrite Ea; reflexivity).
           cbn [list_empty negb andb]. rewrite Hpath. reflexivity.
        -- unfold isfile. rewrite Hpath, get_app. rewrite get_app, Hg. cbn [get]. rewrite Ea. reflexivity.
Qed.

Lemma listedP_is_listedP_paths fs pkg p : listedP fs pkg p = listed_pathsP fs pkg p.
Proof.
  unfold listedP, listed_pathsP. destruct (is_prefix pkg p) eqn:Ep; [|reflexivity]. cbn [andb].
  pose proof (is_prefix_app _ _ Ep) as E. set (rel := skipn (length pkg) p) in *.
  assert (Hb : basename p = last rel EmptyString \/ rel = []).
  { destruct rel as [|x rel'] eqn:Er; [right; reflexivity|left].
    rewrite E. unfold basename. destruct (exists_last (l := x :: rel') ltac:(discriminate)) as [l' [y ->]].
    rewrite app_assoc, !last_last. reflexivity. }
  destruct (get fs pkg) as [n|] eqn:Hg.
  - rewrite (listedP_rel_paths fs rel pkg n Hg). rewrite <- E.
    destruct Hb as [Hb | Hb]; rewrite Hb; reflexivity.
  - destruct rel as [|x rel'] eqn:Er; [reflexivity|]. cbn [list_empty negb andb].
    unfold isfile. rewrite E, get_app, Hg. reflexivity.
Qed.


Lemma walkP_listed fs pkg ch :
  wf_node fs = true -> get fs pkg = Some (Dir ch) ->
  forall p, In p (walkP pkg (Dir ch)) <-> listed_pathsP fs pkg p = true.
Proof.
  intros Hwf Hg p.
  rewrite (walkP_spec (Dir ch) pkg p (wf_get _ _ _ Hwf Hg)).
  rewrite <- listedP_is_listedP_paths. unfold listedP. rewrite Hg. split.
  - intros [rel [-> Hl]]. rewrite is_prefix_self_app, skipn_self_app. exact Hl.
  - intros H. apply andb_prop in H as [Hp Hl]. exists (skipn (length pkg) p).
    split; [apply is_prefix_app; exact Hp|exact Hl].
Qed.

End Filter.
