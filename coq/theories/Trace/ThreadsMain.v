(* C13 in final form: what is REPORTED does not depend on the interleaving. *)
From Coq Require Import List ZArith Bool Lia.
From LP Require Import Trace.ZMap Trace.Concrete Trace.Abstract Trace.AbstractFacts Trace.RefineLemmas Trace.Main Trace.Threads.
Import ListNotations.
Open Scope Z_scope.

Lemma count_lines_app codes tick ops1 : forall st ops2 c l,
  count_lines codes tick st (ops1 ++ ops2) c l
  = count_lines codes tick st ops1 c l + count_lines codes tick (fold_left (a_step codes tick) ops1 st) ops2 c l.
Proof.
  induction ops1 as [|o ops1 IH]; intros st ops2 c l; cbn [app count_lines fold_left]; [lia|].
  rewrite IH. lia.
Qed.

Definition all_threads (a b : list op) : list Z := op_threads (a ++ b).

Lemma cover_left a b : threads_cover (all_threads a b) a.
Proof.
  intros o t Ho Ht. destruct (op_threads_cover (a ++ b)) as [_ Hc]. apply (Hc o t); [apply in_or_app; left; exact Ho|exact Ht].
Qed.
Lemma cover_right a b : threads_cover (all_threads a b) b.
Proof.
  intros o t Ho Ht. destruct (op_threads_cover (a ++ b)) as [_ Hc]. apply (Hc o t); [apply in_or_app; right; exact Ho|exact Ht].
Qed.

(* Registrations first (regs), then any two interleavings body / body' of the same per-thread operation
   sequences: the executed counts agree ... *)
Theorem executed_interleave_invariant codes tick regs body body' c l :
  forallb (fun o => negb (is_G o)) body = true -> forallb (fun o => negb (is_G o)) body' = true ->
  same_projections body body' ->
  executed codes tick (regs ++ body) c l = executed codes tick (regs ++ body') c l.
Proof.
  intros Hg1 Hg2 Hp. unfold executed. rewrite !count_lines_app. f_equal.
  apply (interleave_invariant codes tick (all_threads body body') c l body body');
    [apply NoDup_nodup|apply cover_left|apply cover_right|exact Hg1|exact Hg2|exact Hp].
Qed.

(* ... and so do the reported hit counts, whenever both histories are collision-free and quiescent
   (every thread's work is done: nothing in flight, nothing dropped) *)
Theorem reported_interleave_invariant codes tick regs body body' c l :
  forallb (fun o => negb (is_G o)) body = true -> forallb (fun o => negb (is_G o)) body' = true ->
  same_projections body body' ->
  no_collision codes (regs ++ body) = true -> no_collision codes (regs ++ body') = true ->
  in_flight codes tick (regs ++ body) c l = 0 -> dropped codes tick (regs ++ body) c l = 0 ->
  in_flight codes tick (regs ++ body') c l = 0 -> dropped codes tick (regs ++ body') c l = 0 ->
  reported_hits (run codes tick 0 (regs ++ body)) c l = reported_hits (run codes tick 0 (regs ++ body')) c l.
Proof.
  intros Hg1 Hg2 Hp N1 N2 F1 D1 F2 D2.
  rewrite (hits_exact_quiescent codes tick (regs ++ body) c l N1 F1 D1).
  rewrite (hits_exact_quiescent codes tick (regs ++ body') c l N2 F2 D2).
  apply executed_interleave_invariant; assumption.
Qed.

(* two threads running the same function, two different schedules *)
Definition thr_codes : list code := [mkcode 0 0 0 1000 [2; 3]].
Definition thr_regs : list op := [G 0 0].
Definition thr_body1 : list op :=
  [E 1; E 2; L 1 0 1 0 2; L 2 0 2 0 2; L 1 0 1 0 3; L 2 0 2 0 3; R 1 0 1 0 3; R 2 0 2 0 3; D 1; D 2].
Definition thr_body2 : list op :=
  [E 1; L 1 0 1 0 2; L 1 0 1 0 3; R 1 0 1 0 3; D 1; E 2; L 2 0 2 0 2; L 2 0 2 0 3; R 2 0 2 0 3; D 2].
Example threads_example :
  forallb (fun t => list_eqb (fun a b => match a, b with
                                         | E x, E y | D x, D y => Z.eqb x y
                                         | L a1 a2 a3 a4 a5, L b1 b2 b3 b4 b5 | R a1 a2 a3 a4 a5, R b1 b2 b3 b4 b5 =>
                                             Z.eqb a1 b1 && Z.eqb a2 b2 && Z.eqb a3 b3 && Z.eqb a4 b4 && Z.eqb a5 b5
                                         | _, _ => false end)
                             (filter (of_thread t) thr_body1) (filter (of_thread t) thr_body2)) [1; 2] = true
  /\ reported_hits (run thr_codes 0 0 (thr_regs ++ thr_body1)) 0 2 = 2
  /\ reported_hits (run thr_codes 0 0 (thr_regs ++ thr_body2)) 0 2 = 2
  /\ no_collision thr_codes (thr_regs ++ thr_body1) = true
  /\ in_flight thr_codes 0 (thr_regs ++ thr_body1) 0 2 = 0.
Proof. vm_compute. repeat split. Qed.

Lemma threads_example_short :
  reported_hits (run thr_codes 0 0 (thr_regs ++ thr_body1)) 0 2 = 2
  /\ reported_hits (run thr_codes 0 0 (thr_regs ++ thr_body2)) 0 2 = 2
  /\ no_collision thr_codes (thr_regs ++ thr_body1) = true
  /\ in_flight thr_codes 0 (thr_regs ++ thr_body1) 0 2 = 0.
Proof. exact (proj2 threads_example). Qed.
