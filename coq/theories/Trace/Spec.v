(* The property read literally: an ideal profiler with one pending slot per ACTIVATION
   SEGMENT (frame f, segment s), keyed by the function's label.  It looks only at
   observable identities of the history - which thread, which code object, which frame -
   never at hashes.  C01: hits = number of line events of registered code in enabled
   threads.  C02: time = sum over those line events of T1(next event of the same segment)
   - T2(this event), on the profiler's clock (each accepted event reads the clock: a line
   event twice, a return event once; each read costs `tick`). *)
From Coq Require Import List ZArith Bool Lia.
From LP Require Import Trace.ZMap Trace.Concrete.
Import ListNotations.
Open Scope Z_scope.

Record sstate := mkss {
  s_stat : zmap (zmap entry);            (* label -> line -> (hits, time) *)
  s_pend : list (Z * Z * (Z * Z * Z));   (* (f, s) -> (label, line, T2) *)
  s_reg : list Z;                        (* registered code objects *)
  s_en : list Z;                         (* enabled threads *)
  s_thr : list (Z * Z * Z);              (* (f, s) -> thread, to drop pendings on disable *)
  s_now : Z;
  s_snaps : list snapshot
}.

Definition s_init (start : Z) : sstate := mkss [] [] [] [] [] start [].

Fixpoint pend_get (p : list (Z * Z * (Z * Z * Z))) (f s : Z) : option (Z * Z * Z) :=
  match p with
  | [] => None
  | (f', s', v) :: t => if Z.eqb f' f && Z.eqb s' s then Some v else pend_get t f s
  end.
Fixpoint pend_del (p : list (Z * Z * (Z * Z * Z))) (f s : Z) : list (Z * Z * (Z * Z * Z)) :=
  match p with
  | [] => []
  | (f', s', v) :: t => if Z.eqb f' f && Z.eqb s' s then pend_del t f s else (f', s', v) :: pend_del t f s
  end.

Definition stat_add (m : zmap (zmap entry)) (lbl l dh dt : Z) : zmap (zmap entry) :=
  let row := getd [] m lbl in
  let '(h0, t0) := getd (0, 0) row l in
  set m lbl (set row l (h0 + dh, t0 + dt)).

Definition s_accept (codes : list code) (st : sstate) (t c : Z) : bool :=
  existsb (Z.eqb t) (s_en st) && existsb (Z.eqb c) (s_reg st).

Definition s_event (codes : list code) (tick : Z) (st : sstate) (t c f s l : Z) (is_line : bool) : sstate :=
  if negb (s_accept codes st t c) then st else
  let lbl := c_lbl (nth_code codes c) in
  let time1 := s_now st in
  let now1 := s_now st + tick in
  let stat1 := match pend_get (s_pend st) f s with
               | Some (plbl, pl, t2) => stat_add (s_stat st) plbl pl 0 (time1 - t2)
               | None => s_stat st
               end in
  if is_line then
    mkss (stat_add stat1 lbl l 1 0) ((f, s, (lbl, l, now1)) :: pend_del (s_pend st) f s)
         (s_reg st) (s_en st) ((f, s, t) :: s_thr st) (now1 + tick) (s_snaps st)
  else
    mkss stat1 (pend_del (s_pend st) f s) (s_reg st) (s_en st) (s_thr st) now1 (s_snaps st).

Definition thread_of (st : sstate) (f s : Z) : Z :=
  match find (fun x => Z.eqb (fst (fst x)) f && Z.eqb (snd (fst x)) s) (s_thr st) with
  | Some (_, _, t) => t | None => -1 end.

Definition s_snapshot (codes : list code) (st : sstate) : snapshot :=
  fold_left (fun acc c =>
               let lbl := c_lbl (nth_code codes c) in
               let row := getd [] (s_stat st) lbl in
               insert_lbl (lbl, sort_entries (map (fun e => (fst e, fst (snd e), snd (snd e))) row)) acc)
            (s_reg st) [].

Definition s_step (codes : list code) (tick : Z) (st : sstate) (o : op) : sstate :=
  match o with
  | G cb ca => mkss (s_stat st) (s_pend st) (if existsb (Z.eqb ca) (s_reg st) then s_reg st else s_reg st ++ [ca])
                    (s_en st) (s_thr st) (s_now st) (s_snaps st)
  | E t => mkss (s_stat st) (s_pend st) (s_reg st) (t :: s_en st) (s_thr st) (s_now st) (s_snaps st)
  | D t => mkss (s_stat st)
                (filter (fun p => negb (Z.eqb (thread_of st (fst (fst p)) (snd (fst p))) t)) (s_pend st))
                (s_reg st) (filter (fun x => negb (Z.eqb x t)) (s_en st)) (s_thr st) (s_now st) (s_snaps st)
  | L t c f s l => s_event codes tick st t c f s l true
  | R t c f s l => s_event codes tick st t c f s l false
  | A d => mkss (s_stat st) (s_pend st) (s_reg st) (s_en st) (s_thr st) (s_now st + d) (s_snaps st)
  | S => mkss (s_stat st) (s_pend st) (s_reg st) (s_en st) (s_thr st) (s_now st) (s_snapshot codes st :: s_snaps st)
  end.

Definition s_run (codes : list code) (tick start : Z) (ops : list op) : sstate :=
  fold_left (s_step codes tick) ops (s_init start).

(* what the shards print: 0 = concrete model differs from the implementation,
   1 = implementation's hits differ from the specification, 2 = times differ *)
Definition verdicts (codes : list code) (tick : Z) (with_time : bool) (ops : list op) (impl : list snapshot)
  : bool * bool * bool :=
  let c := rev (snaps (run codes tick 0 ops)) in
  let s := rev (s_snaps (s_run codes tick 0 ops)) in
  (snaps_eqb with_time c impl && pad_ok (run codes tick 0 ops), snaps_eqb false s impl, negb with_time || snaps_eqb true s impl).

(* ---- C12: executable predicates on the implementation's own snapshots -------------------- *)
Fixpoint sorted_unique (l : list (Z * Z * Z)) : bool :=
  match l with
  | a :: ((b :: _) as t) => (fst (fst a) <? fst (fst b)) && sorted_unique t
  | _ => true
  end.

Definition label_lines (codes : list code) (lbl : Z) : list Z :=
  flat_map (fun c => if Z.eqb (c_lbl c) lbl then c_lines c else []) codes.

Definition snap_wf (codes : list code) (s : snapshot) : bool :=
  forallb (fun e => sorted_unique (snd e)
                    && forallb (fun x => (1 <=? snd (fst x)) && (0 <=? snd x)
                                         && existsb (Z.eqb (fst (fst x))) (label_lines codes (fst e))) (snd e)) s.

Definition entry_of (s : snapshot) (lbl l : Z) : option (Z * Z) :=
  match find (fun e => Z.eqb (fst e) lbl) s with
  | Some (_, ents) => match find (fun x => Z.eqb (fst (fst x)) l) ents with
                      | Some (_, h, t) => Some (h, t) | None => None end
  | None => None
  end.

(* every (label, line) of the earlier snapshot is still there with hits and time not smaller *)
Definition snap_le (a b : snapshot) : bool :=
  forallb (fun e => existsb (fun e' => Z.eqb (fst e') (fst e)) b
                    && forallb (fun x => match entry_of b (fst e) (fst (fst x)) with
                                         | Some (h, t) => (snd (fst x) <=? h) && (snd x <=? t)
                                         | None => false end) (snd e)) a.

Fixpoint snaps_monotone (l : list snapshot) : bool :=
  match l with
  | a :: ((b :: _) as t) => snap_le a b && snaps_monotone t
  | _ => true
  end.

Definition verdicts4 (codes : list code) (tick : Z) (with_time : bool) (ops : list op) (impl : list snapshot)
  : bool * bool * bool * bool :=
  (verdicts codes tick with_time ops impl, forallb (snap_wf codes) impl && snaps_monotone impl).

