(* Insertion-ordered finite maps keyed by Z (association lists), with the
   characterising lemmas the tracer proofs use. *)
From Coq Require Import List ZArith Bool Lia.
Import ListNotations.
Open Scope Z_scope.

Notation zmap A := (list (Z * A)) (only parsing).

Fixpoint get {A} (m : zmap A) (k : Z) : option A :=
  match m with
  | [] => None
  | (k', v) :: t => if Z.eqb k' k then Some v else get t k
  end.

(* replace in place, or append at the end (Python dict order) *)
Fixpoint set {A} (m : zmap A) (k : Z) (v : A) : zmap A :=
  match m with
  | [] => [(k, v)]
  | (k', v') :: t => if Z.eqb k' k then (k', v) :: t else (k', v') :: set t k v
  end.

Fixpoint remove {A} (m : zmap A) (k : Z) : zmap A :=
  match m with
  | [] => []
  | (k', v') :: t => if Z.eqb k' k then remove t k else (k', v') :: remove t k
  end.

Definition mem {A} (m : zmap A) (k : Z) : bool := match get m k with Some _ => true | None => false end.
Definition getd {A} (d : A) (m : zmap A) (k : Z) : A := match get m k with Some v => v | None => d end.
Definition keys {A} (m : zmap A) : list Z := map fst m.

Lemma gss {A} (m : zmap A) k v : get (set m k v) k = Some v.
Proof.
  induction m as [|[k' v'] t IH]; cbn [set get].
  - rewrite Z.eqb_refl. reflexivity.
  - destruct (Z.eqb k' k) eqn:E; cbn [get]; rewrite E; [reflexivity|exact IH].
Qed.

Lemma gso {A} (m : zmap A) k k' v : k' <> k -> get (set m k v) k' = get m k'.
Proof.
  intros H. induction m as [|[k0 v0] t IH]; cbn [set get].
  - destruct (Z.eqb_spec k k'); [congruence|reflexivity].
  - destruct (Z.eqb_spec k0 k) as [->|Hne]; cbn [get].
    + destruct (Z.eqb_spec k k'); [congruence|reflexivity].
    + destruct (Z.eqb k0 k'); [reflexivity|exact IH].
Qed.

Lemma grs {A} (m : zmap A) k : get (remove m k) k = None.
Proof.
  induction m as [|[k0 v0] t IH]; cbn [remove get]; [reflexivity|].
  destruct (Z.eqb k0 k) eqn:E; [exact IH|]. cbn [get]. rewrite E. exact IH.
Qed.

Lemma gro {A} (m : zmap A) k k' : k' <> k -> get (remove m k) k' = get m k'.
Proof.
  intros H. induction m as [|[k0 v0] t IH]; cbn [remove get]; [reflexivity|].
  destruct (Z.eqb_spec k0 k) as [->|Hne].
  - destruct (Z.eqb_spec k k'); [congruence|exact IH].
  - cbn [get]. destruct (Z.eqb k0 k'); [reflexivity|exact IH].
Qed.

Lemma get_set {A} (m : zmap A) k k' v :
  get (set m k v) k' = if Z.eqb k k' then Some v else get m k'.
Proof.
  destruct (Z.eqb_spec k k') as [->|H]; [apply gss|apply gso; congruence].
Qed.

Lemma get_remove {A} (m : zmap A) k k' :
  get (remove m k) k' = if Z.eqb k k' then None else get m k'.
Proof.
  destruct (Z.eqb_spec k k') as [->|H]; [apply grs|apply gro; congruence].
Qed.
