(* C12 at the level of the report: for every label, the hit count get_stats shows for a line never
   decreases along any history, and a label that is reported stays reported. *)
From Coq Require Import List ZArith Bool Lia Permutation.
From LP Require Import Trace.ZMap Trace.Concrete Trace.ConcreteFacts Trace.Abstract Trace.RefineLemmas Trace.Stats Trace.Main Trace.Report.
Import ListNotations.
Open Scope Z_scope.

Definition label_hits (codes : list code) (st : cstate) (lbl l : Z) : Z :=
  sumh (cmap st) (label_hashes codes (chm st) lbl) l.

Lemma sumh_app cm a b l : sumh cm (a ++ b) l = sumh cm a l + sumh cm b l.
Proof. unfold sumh. induction a as [|x t IH]; cbn [app fold_right]; [lia|]. rewrite IH. lia. Qed.

Lemma sumh_perm cm a b l : Permutation a b -> sumh cm a l = sumh cm b l.
Proof.
  unfold sumh. induction 1 as [|x a b H IH|x y a|a b c H1 IH1 H2 IH2]; cbn [fold_right]; lia.
Qed.

Lemma sumh_nonneg cm hs l : cells_pos cm -> 0 <= sumh cm hs l.
Proof.
  intros Hc. unfold sumh. induction hs as [|k t IH]; cbn [fold_right]; [lia|]. destruct (Hc k l) as [H _]. lia.
Qed.

Lemma sumh_mono cm cm' hs l : (forall k, bhits cm k l <= bhits cm' k l) -> sumh cm hs l <= sumh cm' hs l.
Proof.
  intros H. unfold sumh. induction hs as [|k t IH]; cbn [fold_right]; [lia|]. specialize (H k). lia.
Qed.

(* appending one key to the list of code c *)
Definition lh (codes : list code) (lbl : Z) (ch : Z * list Z) : list Z :=
  if Z.eqb (c_lbl (nth_code codes (fst ch))) lbl then snd ch else [].

Lemma label_hashes_set_append codes (hm : zmap (list Z)) c key lbl :
  Permutation (label_hashes codes (set hm c (getd [] hm c ++ [key])) lbl)
              (label_hashes codes hm lbl ++ (if Z.eqb (c_lbl (nth_code codes c)) lbl then [key] else [])).
Proof.
  unfold label_hashes, getd. induction hm as [|[c0 hs0] t IH]; cbn [set get flat_map fst snd].
  - cbn [app]. destruct (Z.eqb _ lbl); cbn; apply Permutation_refl.
  - destruct (Z.eqb_spec c0 c) as [->|Hne]; cbn [flat_map fst snd].
    + destruct (Z.eqb (c_lbl (nth_code codes c)) lbl).
      * rewrite <- !app_assoc. apply Permutation_app_head. cbn [app].
        apply Permutation_cons_app. rewrite app_nil_r. apply Permutation_refl.
      * rewrite app_nil_r. apply Permutation_refl.
    + rewrite <- app_assoc. apply Permutation_app_head. exact IH.
Qed.

Lemma reg_lines_label_hashes codes h c lines lbl : forall cm hm,
  exists extra, Permutation (label_hashes codes (snd (reg_lines h c lines cm hm)) lbl) (label_hashes codes hm lbl ++ extra).
Proof.
  induction lines as [|l t IH]; intros cm hm; cbn [reg_lines].
  - exists []. rewrite app_nil_r. apply Permutation_refl.
  - destruct (mem cm (LH h l)); [apply IH|].
    destruct (IH (set cm (LH h l) []) (set hm c (getd [] hm c ++ [LH h l]))) as [extra Hp].
    eexists. eapply Permutation_trans; [exact Hp|].
    eapply Permutation_trans; [apply Permutation_app_tail; apply label_hashes_set_append|].
    rewrite <- app_assoc. apply Permutation_refl.
Qed.

Lemma step_chm_label codes tick st o lbl :
  exists extra, Permutation (label_hashes codes (chm (step codes tick st o)) lbl) (label_hashes codes (chm st) lbl ++ extra).
Proof.
  assert (Hsame : exists extra, Permutation (label_hashes codes (chm st) lbl) (label_hashes codes (chm st) lbl ++ extra))
    by (exists []; rewrite app_nil_r; apply Permutation_refl).
  destruct o; cbn [step chm]; try exact Hsame.
  - unfold add_function. destruct (pad_step _ _ _) as [d' k']. destruct (reg_lines _ _ _ _ _) as [cm hm] eqn:Er. cbn [chm].
    replace hm with (snd (reg_lines (c_hash (nth_code codes ca)) ca (c_lines (nth_code codes ca)) (cmap st) (chm st))) by (rewrite Er; reflexivity).
    apply reg_lines_label_hashes.
  - destruct (is_enabled st t); [|exact Hsame]. unfold callback. destruct (get (cmap st) _); [|exact Hsame].
    destruct (get (getd [] (last st) t) _) as [[ol ot]|]; exact Hsame.
  - destruct (is_enabled st t); [|exact Hsame]. unfold callback. destruct (get (cmap st) _); [|exact Hsame].
    destruct (get (getd [] (last st) t) _) as [[ol ot]|]; exact Hsame.
Qed.

Lemma step_cells codes tick st o : cells_pos (cmap st) -> cells_pos (cmap (step codes tick st o)).
Proof.
  intros H. destruct o; cbn [step cmap]; try exact H.
  - unfold add_function. destruct (pad_step _ _ _) as [d' k']. destruct (reg_lines _ _ _ _ _) as [cm hm] eqn:Er. cbn [cmap].
    intros key l0. unfold bhits.
    replace cm with (fst (reg_lines (c_hash (nth_code codes ca)) ca (c_lines (nth_code codes ca)) (cmap st) (chm st))) by (rewrite Er; reflexivity).
    rewrite reg_lines_getd. apply H.
  - destruct (is_enabled st t); [apply callback_cells; exact H|exact H].
  - destruct (is_enabled st t); [apply callback_cells; exact H|exact H].
Qed.

Lemma step_label_hits codes tick st o lbl l :
  cells_pos (cmap st) -> label_hits codes st lbl l <= label_hits codes (step codes tick st o) lbl l.
Proof.
  intros Hc. unfold label_hits. destruct (step_chm_label codes tick st o lbl) as [extra Hp].
  rewrite (sumh_perm _ _ _ l Hp), sumh_app.
  pose proof (sumh_nonneg (cmap (step codes tick st o)) extra l (step_cells codes tick st o Hc)).
  pose proof (sumh_mono (cmap st) (cmap (step codes tick st o)) (label_hashes codes (chm st) lbl) l
                        (fun k => step_hits codes tick st o k l)). lia.
Qed.

(* what the report shows for (label, line) never decreases, whatever happens in between *)
Theorem label_hits_never_decrease codes tick ops : forall st lbl l,
  cells_pos (cmap st) ->
  label_hits codes st lbl l <= label_hits codes (fold_left (step codes tick) ops st) lbl l.
Proof.
  induction ops as [|o ops IH]; intros st lbl l Hc; cbn [fold_left]; [lia|].
  eapply Z.le_trans; [apply (step_label_hits codes tick st o lbl l Hc)|apply IH; apply step_cells; exact Hc].
Qed.

(* a label that has an entry keeps it *)
Definition label_present (codes : list code) (st : cstate) (lbl : Z) : Prop :=
  exists ch, In ch (chm st) /\ c_lbl (nth_code codes (fst ch)) = lbl.

Lemma set_keeps {A} (m : zmap A) k v c : In c (keys m) -> In c (keys (set m k v)).
Proof. intros H. rewrite set_keys. destruct (mem m k); [exact H|apply in_or_app; left; exact H]. Qed.

Lemma reg_lines_keeps h c lines : forall cm hm c0, In c0 (keys hm) -> In c0 (keys (snd (reg_lines h c lines cm hm))).
Proof.
  induction lines as [|l t IH]; intros cm hm c0 H; cbn [reg_lines]; [exact H|].
  destruct (mem cm (LH h l)); [apply IH; exact H|apply IH; apply set_keeps; exact H].
Qed.

Theorem label_stays_present codes tick ops : forall st lbl,
  label_present codes st lbl -> label_present codes (fold_left (step codes tick) ops st) lbl.
Proof.
  induction ops as [|o ops IH]; intros st lbl H; cbn [fold_left]; [exact H|]. apply IH.
  destruct H as [[c0 hs0] [Hin Hl]]. cbn [fst] in Hl.
  assert (Hk : In c0 (keys (chm st))) by (apply in_map_iff; exists (c0, hs0); split; [reflexivity|exact Hin]).
  assert (Hk' : In c0 (keys (chm (step codes tick st o)))).
  { destruct o; cbn [step chm]; try exact Hk.
    - unfold add_function. destruct (pad_step _ _ _) as [d' k']. destruct (reg_lines _ _ _ _ _) as [cm hm] eqn:Er. cbn [chm].
      replace hm with (snd (reg_lines (c_hash (nth_code codes ca)) ca (c_lines (nth_code codes ca)) (cmap st) (chm st))) by (rewrite Er; reflexivity).
      apply reg_lines_keeps. exact Hk.
    - destruct (is_enabled st t); [|exact Hk]. unfold callback. destruct (get (cmap st) _); [|exact Hk].
      destruct (get (getd [] (last st) t) _) as [[ol ot]|]; exact Hk.
    - destruct (is_enabled st t); [|exact Hk]. unfold callback. destruct (get (cmap st) _); [|exact Hk].
      destruct (get (getd [] (last st) t) _) as [[ol ot]|]; exact Hk. }
  apply in_map_iff in Hk' as [[c1 hs1] [Hc1 Hin1]]. cbn [fst] in Hc1. subst c1.
  exists (c0, hs1). split; [exact Hin1|exact Hl].
Qed.

Theorem run_label_hits_monotone codes tick start ops1 ops2 lbl l :
  label_hits codes (run codes tick start ops1) lbl l <= label_hits codes (run codes tick start (ops1 ++ ops2)) lbl l.
Proof.
  unfold run. rewrite fold_left_app. apply label_hits_never_decrease. apply (run_cells_pos codes tick start ops1).
Qed.

Theorem snapshot_entry_is_label_hits codes tick start ops lbl ents l h t :
  In (lbl, ents) (get_stats codes (run codes tick start ops)) -> In (l, h, t) ents ->
  h = label_hits codes (run codes tick start ops) lbl l.
Proof. intros H1 H2. exact (proj1 (snapshot_entry_values codes tick start ops lbl ents l h t H1 H2)). Qed.
