(* Facts proved directly on the concrete tracer model, for every history:
   snapshots are pure, buckets only grow, hit counts and (with a monotone clock) times
   never decrease, times are never negative. *)
From Coq Require Import List ZArith Bool Lia.
From LP Require Import Trace.ZMap Trace.Concrete.
Import ListNotations.
Open Scope Z_scope.

(* everything but the list of snapshots taken so far *)
Definition core (st : cstate) := (cmap st, chm st, dupes st, last st, enabled st, now st, pad_ok st).

Lemma step_core codes tick st1 st2 o :
  core st1 = core st2 -> o <> S -> core (step codes tick st1 o) = core (step codes tick st2 o).
Proof.
  unfold core. intros H Ho. injection H as H1 H2 H3 H4 H5 H6 H7.
  destruct o; try congruence; cbn [step].
  - unfold add_function. rewrite H1, H2, H3, H7.
    destruct (pad_step _ _ _). destruct (reg_lines _ _ _ _ _). cbn. rewrite H4, H5, H6. reflexivity.
  - cbn. congruence.
  - cbn. congruence.
  - unfold is_enabled. rewrite H5. destruct (existsb _ _); [|cbn; congruence].
    unfold callback. rewrite H1, H4, H6. destruct (get (cmap st2) _); [|cbn; congruence].
    destruct (get (getd [] (last st2) t) _) as [[ol ot]|]; cbn; rewrite ?H1, ?H2, ?H3, ?H4, ?H5, ?H6, ?H7; reflexivity.
  - unfold is_enabled. rewrite H5. destruct (existsb _ _); [|cbn; congruence].
    unfold callback. rewrite H1, H4, H6. destruct (get (cmap st2) _); [|cbn; congruence].
    destruct (get (getd [] (last st2) t) _) as [[ol ot]|]; cbn; rewrite ?H1, ?H2, ?H3, ?H4, ?H5, ?H6, ?H7; reflexivity.
  - cbn. congruence.
Qed.

Lemma step_S_core codes tick st : core (step codes tick st S) = core st.
Proof. reflexivity. Qed.

Lemma fold_core codes tick ops : forall st1 st2,
  core st1 = core st2 ->
  core (fold_left (step codes tick) ops st1) = core (fold_left (step codes tick) (filter (fun o => match o with S => false | _ => true end) ops) st2).
Proof.
  induction ops as [|o ops IH]; intros st1 st2 H; cbn [fold_left filter]; [exact H|].
  destruct o; cbn [fold_left]; try (apply IH; apply step_core; [exact H|discriminate]).
  apply IH. rewrite step_S_core. exact H.
Qed.

(* Taking snapshots - any number, anywhere - never changes the profiler's data or any later result. *)
Theorem snapshots_are_pure codes tick start ops :
  core (run codes tick start ops)
  = core (run codes tick start (filter (fun o => match o with S => false | _ => true end) ops)).
Proof. unfold run. apply fold_core. reflexivity. Qed.

Theorem snapshot_is_get_stats codes tick st :
  snaps (step codes tick st S) = get_stats codes st :: snaps st.
Proof. reflexivity. Qed.

(* ---- buckets only grow -------------------------------------------------------------- *)
Definition bhits (cm : zmap (zmap entry)) (key l : Z) : Z := fst (getd (0, 0) (getd [] cm key) l).
Definition btime (cm : zmap (zmap entry)) (key l : Z) : Z := snd (getd (0, 0) (getd [] cm key) l).

Lemma getd_set {A} (d : A) (m : zmap A) k k' v : getd d (set m k v) k' = if Z.eqb k k' then v else getd d m k'.
Proof. unfold getd. rewrite get_set. destruct (Z.eqb k k'); reflexivity. Qed.

Lemma getd_some {A} (d : A) (m : zmap A) k v : get m k = Some v -> getd d m k = v.
Proof. unfold getd. intros ->. reflexivity. Qed.

Lemma cell_upd (cm : zmap (zmap entry)) key bucket ol v key' l' :
  get cm key = Some bucket ->
  getd (0, 0) (getd [] (set cm key (set bucket ol v)) key') l'
  = if Z.eqb key key' then (if Z.eqb ol l' then v else getd (0, 0) (getd [] cm key) l')
    else getd (0, 0) (getd [] cm key') l'.
Proof.
  intros H. rewrite getd_set. destruct (Z.eqb key key'); [|reflexivity].
  rewrite getd_set. rewrite (getd_some [] cm key bucket H). reflexivity.
Qed.

Lemma reg_lines_getd h c lines : forall cm hm key,
  getd [] (fst (reg_lines h c lines cm hm)) key = getd [] cm key.
Proof.
  induction lines as [|l t IH]; intros cm hm key; cbn [reg_lines]; [reflexivity|].
  destruct (mem cm (LH h l)) eqn:Em; [apply IH|].
  rewrite IH, getd_set. destruct (Z.eqb_spec (LH h l) key) as [<-|]; [|reflexivity].
  unfold mem in Em. unfold getd. destruct (get cm (LH h l)); [discriminate|reflexivity].
Qed.

Lemma reg_lines_bucket h c lines cm hm key l :
  getd (0, 0) (getd [] (fst (reg_lines h c lines cm hm)) key) l = getd (0, 0) (getd [] cm key) l.
Proof. rewrite reg_lines_getd. reflexivity. Qed.

Definition last_le_now (st : cstate) : Prop :=
  forall t h l t0, get (getd [] (last st) t) h = Some (l, t0) -> t0 <= now st.

Lemma callback_hits tick st t h l isl key l' :
  bhits (cmap st) key l' <= bhits (cmap (callback tick st t h l isl)) key l'.
Proof.
  unfold callback. destruct (get (cmap st) (LH h l)) as [bucket|] eqn:Eb; [|lia].
  assert (Hc : forall cm1, cm1 = match get (getd [] (last st) t) h with
                 | Some (old_l, old_t) => let '(nh, tot) := getd (0, 0) bucket old_l in
                     set (cmap st) (LH h l) (set bucket old_l (nh + 1, tot + (now st - old_t)))
                 | None => cmap st end -> bhits (cmap st) key l' <= bhits cm1 key l').
  { intros cm1 ->. destruct (get (getd [] (last st) t) h) as [[ol ot]|]; [|lia].
    destruct (getd (0, 0) bucket ol) as [nh tot] eqn:Eg. unfold bhits.
    rewrite (cell_upd _ _ _ _ _ _ _ Eb). destruct (Z.eqb_spec (LH h l) key) as [<-|]; [|lia].
    destruct (Z.eqb_spec ol l') as [<-|]; [|lia].
    rewrite (getd_some [] _ _ _ Eb), Eg. cbn. lia. }
  destruct isl; cbn [cmap]; apply Hc; reflexivity.
Qed.

Lemma step_hits codes tick st o key l :
  bhits (cmap st) key l <= bhits (cmap (step codes tick st o)) key l.
Proof.
  destruct o; cbn [step cmap]; try lia.
  - unfold add_function. destruct (pad_step _ _ _) as [d' k'].
    destruct (reg_lines _ _ _ _ _) as [cm hm] eqn:Er. cbn [cmap].
    unfold bhits. replace cm with (fst (reg_lines (c_hash (nth_code codes ca)) ca (c_lines (nth_code codes ca)) (cmap st) (chm st))) by (rewrite Er; reflexivity).
    rewrite reg_lines_bucket. lia.
  - destruct (is_enabled st t); [apply callback_hits|lia].
  - destruct (is_enabled st t); [apply callback_hits|lia].
Qed.

(* Hit counts of every (bucket, line) never decrease along any history. *)
Theorem hits_never_decrease codes tick ops : forall st key l,
  bhits (cmap st) key l <= bhits (cmap (fold_left (step codes tick) ops st)) key l.
Proof.
  induction ops as [|o ops IH]; intros st key l; cbn [fold_left]; [lia|].
  eapply Z.le_trans; [apply (step_hits codes tick st o)|apply IH].
Qed.

(* ---- time: never negative, never decreasing, with a monotone clock --------------------- *)
Definition clock_monotone (tick : Z) (ops : list op) : Prop :=
  0 <= tick /\ forall d, In (A d) ops -> 0 <= d.

Definition times_nonneg (st : cstate) : Prop := forall key l, 0 <= btime (cmap st) key l.

Lemma callback_inv tick st t h l isl :
  0 <= tick -> last_le_now st -> times_nonneg st ->
  last_le_now (callback tick st t h l isl) /\ times_nonneg (callback tick st t h l isl)
  /\ (forall key l', btime (cmap st) key l' <= btime (cmap (callback tick st t h l isl)) key l')
  /\ now st <= now (callback tick st t h l isl).
Proof.
  intros Ht Hl Hn. unfold callback.
  destruct (get (cmap st) (LH h l)) as [bucket|] eqn:Eb; [|repeat split; try assumption; try lia; intros; lia].
  set (cm1 := match get (getd [] (last st) t) h with
              | Some (old_l, old_t) => let '(nh, tot) := getd (0, 0) bucket old_l in
                  set (cmap st) (LH h l) (set bucket old_l (nh + 1, tot + (now st - old_t)))
              | None => cmap st end).
  assert (Hcm : forall key l', btime (cmap st) key l' <= btime cm1 key l').
  { intros key l'. unfold cm1. destruct (get (getd [] (last st) t) h) as [[ol ot]|] eqn:El; [|lia].
    destruct (getd (0, 0) bucket ol) as [nh tot] eqn:Eg. unfold btime.
    rewrite (cell_upd _ _ _ _ _ _ _ Eb). destruct (Z.eqb_spec (LH h l) key) as [<-|]; [|lia].
    destruct (Z.eqb_spec ol l') as [<-|]; [|lia].
    rewrite (getd_some [] _ _ _ Eb), Eg. cbn. specialize (Hl t h ol ot El). lia. }
  assert (Hnn : forall key l', 0 <= btime cm1 key l') by (intros key l'; specialize (Hn key l'); specialize (Hcm key l'); lia).
  destruct isl; cbn [cmap last now]; (split; [|split; [exact Hnn|split; [exact Hcm|lia]]]); unfold last_le_now; cbn [last now].
  - intros t' h' l0 t0. rewrite getd_set. destruct (Z.eqb_spec t t') as [<-|Hne].
    + rewrite get_set. destruct (Z.eqb h h'); [intros H; injection H as <- <-; lia|].
      intros H. specialize (Hl _ _ _ _ H). lia.
    + intros H. specialize (Hl _ _ _ _ H). lia.
  - intros t' h' l0 t0. rewrite getd_set. destruct (Z.eqb_spec t t') as [<-|Hne].
    + rewrite get_remove. destruct (Z.eqb h h'); [discriminate|].
      intros H. specialize (Hl _ _ _ _ H). lia.
    + intros H. specialize (Hl _ _ _ _ H). lia.
Qed.

Lemma step_inv codes tick st o :
  0 <= tick -> (forall d, o = A d -> 0 <= d) -> last_le_now st -> times_nonneg st ->
  last_le_now (step codes tick st o) /\ times_nonneg (step codes tick st o)
  /\ (forall key l, btime (cmap st) key l <= btime (cmap (step codes tick st o)) key l).
Proof.
  intros Ht Hd Hl Hn. destruct o; cbn [step].
  - unfold add_function. destruct (pad_step _ _ _) as [d' k'].
    destruct (reg_lines _ _ _ _ _) as [cm hm] eqn:Er.
    assert (Hb : forall key l, btime cm key l = btime (cmap st) key l).
    { intros key l. unfold btime.
      replace cm with (fst (reg_lines (c_hash (nth_code codes ca)) ca (c_lines (nth_code codes ca)) (cmap st) (chm st))) by (rewrite Er; reflexivity).
      rewrite reg_lines_bucket. reflexivity. }
    repeat split; cbn.
    + exact Hl.
    + intros key l. rewrite Hb. apply Hn.
    + intros key l. rewrite Hb. lia.
  - repeat split; cbn; [exact Hl|exact Hn|intros; lia].
  - repeat split; cbn; [|exact Hn|intros; lia].
    intros t' h' l0 t0. cbn. rewrite getd_set. destruct (Z.eqb t t'); [discriminate|]. apply Hl.
  - destruct (is_enabled st t); [|repeat split; [exact Hl|exact Hn|intros; lia]].
    destruct (callback_inv tick st t (c_hash (nth_code codes c)) l true Ht Hl Hn) as [H1 [H2 [H3 _]]]. repeat split; assumption.
  - destruct (is_enabled st t); [|repeat split; [exact Hl|exact Hn|intros; lia]].
    destruct (callback_inv tick st t (c_hash (nth_code codes c)) l false Ht Hl Hn) as [H1 [H2 [H3 _]]]. repeat split; assumption.
  - specialize (Hd d eq_refl). repeat split; cbn; [|exact Hn|intros; lia].
    intros t' h' l0 t0 H. specialize (Hl _ _ _ _ H). cbn. lia.
  - repeat split; cbn; [exact Hl|exact Hn|intros; lia].
Qed.

Theorem times_nonneg_and_monotone codes tick ops : forall st,
  clock_monotone tick ops -> last_le_now st -> times_nonneg st ->
  let st' := fold_left (step codes tick) ops st in
  last_le_now st' /\ times_nonneg st' /\ forall key l, btime (cmap st) key l <= btime (cmap st') key l.
Proof.
  induction ops as [|o ops IH]; intros st [Ht Hd] Hl Hn; cbn [fold_left].
  - repeat split; [exact Hl|exact Hn|intros; lia].
  - destruct (step_inv codes tick st o Ht) as [H1 [H2 H3]]; [intros d ->; apply Hd; left; reflexivity|exact Hl|exact Hn|].
    destruct (IH (step codes tick st o)) as [H4 [H5 H6]]; [split; [exact Ht|intros d Hi; apply Hd; right; exact Hi]|exact H1|exact H2|].
    repeat split; [exact H4|exact H5|]. intros key l. eapply Z.le_trans; [apply H3|apply H6].
Qed.

Lemma init_invariants start : last_le_now (init_state start) /\ times_nonneg (init_state start).
Proof. split; [intros t h l t0; cbn; discriminate|intros key l; cbn; lia]. Qed.
