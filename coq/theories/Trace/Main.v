(* The tracer theorems in their final form: executable hypotheses over a history, the
   composition  Concrete -> Abstract -> counting. *)
From Coq Require Import List ZArith Bool Lia.
From LP Require Import Trace.ZMap Trace.Concrete Trace.ConcreteFacts Trace.Abstract Trace.AbstractFacts
     Trace.RefineLemmas Trace.Refine.
Import ListNotations.
Open Scope Z_scope.

(* ---- executable hypotheses ------------------------------------------------------------- *)
Definition reg_codes (ops : list op) : list Z :=
  flat_map (fun o => match o with G _ ca => [ca] | _ => [] end) ops.
Definition ev_points (ops : list op) : list (Z * Z) :=
  flat_map (fun o => match o with L _ c _ _ l | R _ c _ _ l => [(c, l)] | _ => [] end) ops.

Definition nc1b (codes : list code) (ops : list op) : bool :=
  forallb (fun c1 => forallb (fun c2 => negb (Z.eqb (hash codes c1) (hash codes c2)) || Z.eqb c1 c2) (reg_codes ops)) (reg_codes ops).
Definition nc2b (codes : list code) (ops : list op) : bool :=
  forallb (fun c1 => forallb (fun l1 => forallb (fun p =>
     negb (Z.eqb (LH (hash codes c1) l1) (LH (hash codes (fst p)) (snd p))) || (Z.eqb (fst p) c1 && Z.eqb (snd p) l1))
     (ev_points ops)) (lines codes c1)) (reg_codes ops).
Definition nc3b (codes : list code) (ops : list op) : bool :=
  forallb (fun c1 => forallb (fun l1 => forallb (fun c2 => forallb (fun l2 =>
     negb (Z.eqb (LH (hash codes c1) l1) (LH (hash codes c2) l2)) || Z.eqb c1 c2)
     (lines codes c2)) (reg_codes ops)) (lines codes c1)) (reg_codes ops).

(* NoCollision: line hashes are injective over everything that is registered or executes, and
   registered code objects have pairwise different bytecode hashes *)
Definition no_collision (codes : list code) (ops : list op) : bool :=
  nc1b codes ops && nc2b codes ops && nc3b codes ops.

Definition RCp (ops : list op) (c : Z) : Prop := In c (reg_codes ops).
Definition EPp (ops : list op) (c l : Z) : Prop := In (c, l) (ev_points ops).

Lemma no_collision_sound codes ops : no_collision codes ops = true ->
  (forall c1 c2, RCp ops c1 -> RCp ops c2 -> hash codes c1 = hash codes c2 -> c1 = c2)
  /\ (forall c1 l1 c2 l2, RCp ops c1 -> In l1 (lines codes c1) -> EPp ops c2 l2 ->
        LH (hash codes c1) l1 = LH (hash codes c2) l2 -> c2 = c1 /\ l2 = l1)
  /\ (forall c1 l1 c2 l2, RCp ops c1 -> In l1 (lines codes c1) -> RCp ops c2 -> In l2 (lines codes c2) ->
        LH (hash codes c1) l1 = LH (hash codes c2) l2 -> c1 = c2).
Proof.
  unfold no_collision, nc1b, nc2b, nc3b. intros H. apply andb_prop in H as [H H3]. apply andb_prop in H as [H1 H2].
  rewrite forallb_forall in H1, H2, H3. split; [|split].
  - intros c1 c2 R1 R2 Hh. specialize (H1 c1 R1). rewrite forallb_forall in H1. specialize (H1 c2 R2).
    rewrite Hh, Z.eqb_refl in H1. cbn in H1. apply Z.eqb_eq. exact H1.
  - intros c1 l1 c2 l2 R1 L1 E2 Hk. specialize (H2 c1 R1). rewrite forallb_forall in H2. specialize (H2 l1 L1).
    rewrite forallb_forall in H2. specialize (H2 (c2, l2) E2). cbn [fst snd] in H2. rewrite Hk, Z.eqb_refl in H2. cbn in H2.
    apply andb_prop in H2 as [Ha Hb]. split; apply Z.eqb_eq; assumption.
  - intros c1 l1 c2 l2 R1 L1 R2 L2 Hk. specialize (H3 c1 R1). rewrite forallb_forall in H3. specialize (H3 l1 L1).
    rewrite forallb_forall in H3. specialize (H3 c2 R2). rewrite forallb_forall in H3. specialize (H3 l2 L2).
    rewrite Hk, Z.eqb_refl in H3. cbn in H3. apply Z.eqb_eq. exact H3.
Qed.

Lemma ops_ok ops : forall o, In o ops -> op_ok (RCp ops) (EPp ops) o.
Proof.
  intros o Ho. destruct o; cbn; try exact I.
  - unfold RCp, reg_codes. apply in_flat_map. exists (G cb ca). split; [exact Ho|left; reflexivity].
  - unfold EPp, ev_points. apply in_flat_map. exists (L t c f s l). split; [exact Ho|left; reflexivity].
  - unfold EPp, ev_points. apply in_flat_map. exists (R t c f s l). split; [exact Ho|left; reflexivity].
Qed.

(* the threads of a history *)
Definition op_threads (ops : list op) : list Z :=
  nodup Z.eq_dec (flat_map (fun o => match op_thread o with Some t => [t] | None => [] end) ops).

Lemma op_threads_cover ops : NoDup (op_threads ops) /\ threads_cover (op_threads ops) ops.
Proof.
  split; [apply NoDup_nodup|]. intros o t Ho Ht. unfold op_threads. apply nodup_In. apply in_flat_map.
  exists o. split; [exact Ho|]. rewrite Ht. left. reflexivity.
Qed.

(* what the profiler reports for line l of registered code c: the sum over c's buckets *)
Definition reported_hits (cs : cstate) (c l : Z) : Z := sumh (cmap cs) (getd [] (chm cs) c) l.
Definition reported_time (cs : cstate) (c l : Z) : Z := sumt (cmap cs) (getd [] (chm cs) c) l.

(* accepted line events of code c at line l: thread enabled, code registered, line in the code's table *)
Definition executed (codes : list code) (tick : Z) (ops : list op) (c l : Z) : Z :=
  count_lines codes tick (a_init 0) ops c l.
(* lines of c still in flight at the end of the history (some thread's pending slot holds l) *)
Definition in_flight (codes : list code) (tick : Z) (ops : list op) (c l : Z) : Z :=
  psum (ap (a_run codes tick 0 ops)) (op_threads ops) c l.
(* lines of c that were in flight when their thread disabled the profiler *)
Definition dropped (codes : list code) (tick : Z) (ops : list op) (c l : Z) : Z :=
  count_dropped codes tick (a_init 0) ops c l.

Lemma run_refines codes tick ops :
  no_collision codes ops = true ->
  Inv codes (RCp ops) (run codes tick 0 ops) (a_run codes tick 0 ops).
Proof.
  intros H. destruct (no_collision_sound codes ops H) as [N1 [N2 N3]].
  unfold run, a_run. apply (refinement codes tick (RCp ops) (EPp ops) N1 N2 N3); [apply inv_init|apply ops_ok].
Qed.

Lemma reported_is_abstract codes tick ops c l :
  no_collision codes ops = true ->
  reported_hits (run codes tick 0 ops) c l = ah (a_run codes tick 0 ops) c l
  /\ reported_time (run codes tick 0 ops) c l = atm (a_run codes tick 0 ops) c l.
Proof.
  intros H. pose proof (run_refines codes tick ops H) as I. unfold reported_hits, reported_time.
  destruct (get (chm (run codes tick 0 ops)) c) as [hs|] eqn:Eg.
  - rewrite (getd_some [] _ _ _ Eg). apply (v_sum _ _ _ _ I c hs l Eg).
  - unfold getd. rewrite Eg. cbn.
    assert (Hn : ~ In c (areg (a_run codes tick 0 ops))).
    { intros Hc. apply inb_In in Hc. rewrite <- (v_reg _ _ _ _ I) in Hc. unfold mem in Hc. rewrite Eg in Hc. discriminate. }
    destruct (v_zero _ _ _ _ I c Hn) as [Hz _]. destruct (Hz l) as [-> ->]. split; reflexivity.
Qed.

(* C01, exact form, every history *)
Theorem hits_exact codes tick ops c l :
  no_collision codes ops = true ->
  reported_hits (run codes tick 0 ops) c l
  = executed codes tick ops c l - in_flight codes tick ops c l - dropped codes tick ops c l.
Proof.
  intros H. destruct (reported_is_abstract codes tick ops c l H) as [-> _].
  destruct (op_threads_cover ops) as [Hnd Hcov].
  apply (a_hits_exact codes tick 0 (op_threads ops) ops c l Hnd Hcov).
Qed.

Corollary hits_exact_quiescent codes tick ops c l :
  no_collision codes ops = true ->
  in_flight codes tick ops c l = 0 -> dropped codes tick ops c l = 0 ->
  reported_hits (run codes tick 0 ops) c l = executed codes tick ops c l.
Proof. intros H H1 H2. rewrite hits_exact by exact H. lia. Qed.

Corollary hits_le_executed codes tick ops c l :
  no_collision codes ops = true ->
  reported_hits (run codes tick 0 ops) c l <= executed codes tick ops c l.
Proof.
  intros H. rewrite hits_exact by exact H.
  pose proof (psum_nonneg (ap (a_run codes tick 0 ops)) (op_threads ops) c l).
  pose proof (count_dropped_nonneg codes tick ops (a_init 0) c l). unfold in_flight, dropped. lia.
Qed.

(* C04: code that is not registered reports nothing, whatever executes *)
Corollary unregistered_reports_nothing codes tick ops c l :
  no_collision codes ops = true -> ~ In c (reg_codes ops) ->
  reported_hits (run codes tick 0 ops) c l = 0 /\ reported_time (run codes tick 0 ops) c l = 0.
Proof.
  intros H Hn. pose proof (run_refines codes tick ops H) as I.
  destruct (reported_is_abstract codes tick ops c l H) as [-> ->].
  assert (Hna : ~ In c (areg (a_run codes tick 0 ops))) by (intros Hc; apply Hn; apply (v_rc _ _ _ _ I c Hc)).
  destruct (v_zero _ _ _ _ I c Hna) as [Hz _]. apply Hz.
Qed.
