(* E1 - the tracing state machine, mirroring line_profiler/_line_profiler.pyx statement by
   statement: add_function (dupes_map, NOP padding, line-hash registration), the trace
   callback (bucket lookup by the CURRENT line's hash, pending slot per (thread, block hash)),
   enable/disable, get_stats (bucket concatenation, merge by line, sort, last label wins).
   Executable: the correspondence shards run it with vm_compute on recorded histories. *)
From Coq Require Import List ZArith Bool Lia.
From LP Require Import Trace.ZMap.
Import ListNotations.
Open Scope Z_scope.

(* a code object, as far as the profiler can tell: its bytecode (base id b, k NOP pairs
   appended), its label (file, first line, name) and the line numbers of its bytecode offsets
   in first-occurrence order (what the registration loop meets) *)
Record code := mkcode { c_b : Z; c_k : Z; c_lbl : Z; c_hash : Z; c_lines : list Z }.

Inductive op :=
| G (cb ca : Z)            (* add_function on a function whose code is cb; afterwards it is ca *)
| E (t : Z)                (* enable()  in thread t  (PyEval_SetTrace) *)
| D (t : Z)                (* disable() in thread t *)
| L (t c f s l : Z)        (* PyTrace_LINE   in thread t, code c, frame f, activation segment s, line l *)
| R (t c f s l : Z)        (* PyTrace_RETURN (return, yield, await-suspension, unwind) *)
| A (d : Z)                (* the clock advances by d *)
| S.                       (* get_stats() *)

(* compute_line_hash: block_hash ^ linenum on 64-bit two's complement = Z.lxor on Z for int64 operands *)
Definition LH (h l : Z) : Z := Z.lxor h l.

Notation entry := (Z * Z)%type (only parsing).          (* (nhits, total_time) *)
Definition snapshot := list (Z * list (Z * Z * Z)).    (* label -> [(line, hits, time)], sorted by label *)

Record cstate := mkcs {
  cmap : zmap (zmap entry);          (* _c_code_map: line hash -> lineno -> (nhits, total_time) *)
  chm : zmap (list Z);               (* code_hash_map: code -> line hashes, insertion ordered *)
  dupes : list (Z * Z * Z);          (* dupes_map: (b, k) -> number of entries *)
  last : zmap (zmap (Z * Z));        (* _c_last_time: thread -> block hash -> (lineno, time) *)
  enabled : list Z;                  (* threads whose trace function is the profiler *)
  now : Z;
  snaps : list snapshot;             (* most recent first *)
  pad_ok : bool                      (* every observed re-coding matched the model's padding rule *)
}.

Definition init_state (start : Z) : cstate := mkcs [] [] [] [] [] start [] true.

Definition nth_code (codes : list code) (c : Z) : code :=
  nth (Z.to_nat c) codes (mkcode (-1) (-1) (-1) 0 []).

(* ---- add_function -------------------------------------------------------------- *)
Fixpoint dupes_get (d : list (Z * Z * Z)) (b k : Z) : option Z :=
  match d with
  | [] => None
  | (b', k', n) :: t => if Z.eqb b' b && Z.eqb k' k then Some n else dupes_get t b k
  end.
Fixpoint dupes_set (d : list (Z * Z * Z)) (b k n : Z) : list (Z * Z * Z) :=
  match d with
  | [] => [(b, k, n)]
  | (b', k', n') :: t => if Z.eqb b' b && Z.eqb k' k then (b', k', n) :: t else (b', k', n') :: dupes_set t b k n
  end.

(* the pad count the source computes: in dupes_map -> append, pad len+1 NOP pairs; else register as is *)
Definition pad_step (d : list (Z * Z * Z)) (b k : Z) : list (Z * Z * Z) * Z :=
  match dupes_get d b k with
  | Some n => (dupes_set d b k (n + 1), k + (n + 1) + 1)
  | None => (dupes_set d b k 1, k)
  end.

(* the registration loop over the (deduplicated) lines of the bytecode offsets *)
Fixpoint reg_lines (h : Z) (c : Z) (lines : list Z) (cm : zmap (zmap entry)) (hm : zmap (list Z))
  : zmap (zmap entry) * zmap (list Z) :=
  match lines with
  | [] => (cm, hm)
  | l :: t =>
      let key := LH h l in
      if mem cm key then reg_lines h c t cm hm
      else reg_lines h c t (set cm key []) (set hm c (getd [] hm c ++ [key]))
  end.

Definition add_function (codes : list code) (st : cstate) (cb ca : Z) : cstate :=
  let b := nth_code codes cb in
  let a := nth_code codes ca in
  let '(d', k') := pad_step (dupes st) (c_b b) (c_k b) in
  let ok := Z.eqb (c_b a) (c_b b) && Z.eqb (c_k a) k' && Z.eqb (c_lbl a) (c_lbl b) in
  let '(cm, hm) := reg_lines (c_hash a) ca (c_lines a) (cmap st) (chm st) in
  mkcs cm hm d' (last st) (enabled st) (now st) (snaps st) (pad_ok st && ok).

(* ---- the trace callback ---------------------------------------------------------- *)
Definition callback (tick : Z) (st : cstate) (t h l : Z) (is_line : bool) : cstate :=
  let key := LH h l in
  match get (cmap st) key with
  | None => st
  | Some bucket =>
      let time1 := now st in
      let now1 := now st + tick in
      let lt := getd [] (last st) t in
      let cm1 := match get lt h with
                 | Some (old_l, old_t) =>
                     let '(nh, tot) := getd (0, 0) bucket old_l in
                     set (cmap st) key (set bucket old_l (nh + 1, tot + (time1 - old_t)))
                 | None => cmap st
                 end in
      if is_line then
        mkcs cm1 (chm st) (dupes st) (set (last st) t (set lt h (l, now1))) (enabled st) (now1 + tick) (snaps st) (pad_ok st)
      else
        mkcs cm1 (chm st) (dupes st) (set (last st) t (remove lt h)) (enabled st) now1 (snaps st) (pad_ok st)
  end.

Definition is_enabled (st : cstate) (t : Z) : bool := existsb (Z.eqb t) (enabled st).

(* ---- get_stats ----------------------------------------------------------------------- *)
Fixpoint insert_sorted (e : Z * Z * Z) (l : list (Z * Z * Z)) : list (Z * Z * Z) :=
  match l with
  | [] => [e]
  | x :: t => if fst (fst e) <=? fst (fst x) then e :: l else x :: insert_sorted e t
  end.
Definition sort_entries (l : list (Z * Z * Z)) : list (Z * Z * Z) := fold_right insert_sorted [] l.

(* merge duplicate line numbers by summing (nhits_by_lineno / total_time_by_lineno) *)
Definition merge_entries (ents : list (Z * entry)) : zmap entry :=
  fold_left (fun acc e => let '(l, (nh, tot)) := e in
                          let '(nh0, tt0) := getd (0, 0) acc l in set acc l (nh0 + nh, tt0 + tot)) ents [].

Definition code_entries (cm : zmap (zmap entry)) (hashes : list Z) : list (Z * Z * Z) :=
  let ents := flat_map (fun k => getd [] cm k) hashes in
  sort_entries (map (fun e => (fst e, fst (snd e), snd (snd e))) (merge_entries ents)).

Fixpoint insert_lbl (e : Z * list (Z * Z * Z)) (l : snapshot) : snapshot :=
  match l with
  | [] => [e]
  | x :: t => if fst e <? fst x then e :: l
              else if fst e =? fst x then e :: t          (* stats[key] = entries: the later code overwrites *)
              else x :: insert_lbl e t
  end.

(* all line hashes registered by the code objects that carry label lbl, in registration order:
   get_stats accumulates per label (merged_by_key), it does not overwrite *)
Definition label_hashes (codes : list code) (hm : zmap (list Z)) (lbl : Z) : list Z :=
  flat_map (fun ch => if Z.eqb (c_lbl (nth_code codes (fst ch))) lbl then snd ch else []) hm.

Definition get_stats (codes : list code) (st : cstate) : snapshot :=
  fold_left (fun acc ch => let lbl := c_lbl (nth_code codes (fst ch)) in
                           insert_lbl (lbl, code_entries (cmap st) (label_hashes codes (chm st) lbl)) acc) (chm st) [].

(* ---- one step -------------------------------------------------------------------------- *)
Definition step (codes : list code) (tick : Z) (st : cstate) (o : op) : cstate :=
  match o with
  | G cb ca => add_function codes st cb ca
  | E t => mkcs (cmap st) (chm st) (dupes st) (last st) (t :: enabled st) (now st) (snaps st) (pad_ok st)
  | D t => mkcs (cmap st) (chm st) (dupes st) (set (last st) t []) (filter (fun x => negb (Z.eqb x t)) (enabled st))
                (now st) (snaps st) (pad_ok st)
  | L t c f s l => if is_enabled st t then callback tick st t (c_hash (nth_code codes c)) l true else st
  | R t c f s l => if is_enabled st t then callback tick st t (c_hash (nth_code codes c)) l false else st
  | A d => mkcs (cmap st) (chm st) (dupes st) (last st) (enabled st) (now st + d) (snaps st) (pad_ok st)
  | S => mkcs (cmap st) (chm st) (dupes st) (last st) (enabled st) (now st) (get_stats codes st :: snaps st) (pad_ok st)
  end.

Definition run (codes : list code) (tick start : Z) (ops : list op) : cstate :=
  fold_left (step codes tick) ops (init_state start).

(* ---- comparison helpers for the shards ---------------------------------------------------- *)
Definition e3_eqb (with_time : bool) (a b : Z * Z * Z) : bool :=
  Z.eqb (fst (fst a)) (fst (fst b)) && Z.eqb (snd (fst a)) (snd (fst b)) && (negb with_time || Z.eqb (snd a) (snd b)).
Fixpoint list_eqb {A} (eqb : A -> A -> bool) (a b : list A) : bool :=
  match a, b with
  | [], [] => true
  | x :: a', y :: b' => eqb x y && list_eqb eqb a' b'
  | _, _ => false
  end.
Definition snap_eqb (with_time : bool) (a b : snapshot) : bool :=
  list_eqb (fun x y => Z.eqb (fst x) (fst y) && list_eqb (e3_eqb with_time) (snd x) (snd y)) a b.
Definition snaps_eqb (with_time : bool) (a b : list snapshot) : bool := list_eqb (snap_eqb with_time) a b.
