(* Thread locality on the hash-bucket tracer (= the machine regenerated from _line_profiler.pyx, GenRun.gen_run_eq):
   an operation performed by thread t - a line or return event, enable(), disable() - never changes another
   thread's table of pending line starts, and disable() changes no counter at all.  (The statement fails for a
   disable() that clears a table other than the caller's, or all of them.) *)
From Coq Require Import List ZArith Bool Lia.
From LP Require Import Trace.ZMap Trace.Concrete Trace.Abstract Trace.AbstractFacts.
Import ListNotations.
Open Scope Z_scope.

Lemma callback_last_other tick st t h l isl u : u <> t ->
  get (last (callback tick st t h l isl)) u = get (last st) u.
Proof.
  intros Hne. unfold callback. destruct (get (cmap st) (LH h l)) as [bucket|]; [|reflexivity].
  destruct isl; cbn [last]; apply gso; exact Hne.
Qed.

Theorem step_last_other codes tick st o t u :
  op_thread o = Some t -> u <> t -> get (last (step codes tick st o)) u = get (last st) u.
Proof.
  intros Ho Hne. destruct o; cbn [op_thread] in Ho; try discriminate; injection Ho as ->; cbn [step].
  - reflexivity.
  - cbn [last]. apply gso. exact Hne.
  - destruct (is_enabled st t); [apply callback_last_other; exact Hne|reflexivity].
  - destruct (is_enabled st t); [apply callback_last_other; exact Hne|reflexivity].
Qed.

(* whole runs: the pending table of thread u after a history in which u performs nothing is the initial one *)
Theorem run_last_untouched codes tick u : forall ops st,
  (forall o, In o ops -> op_thread o <> Some u) ->
  (forall o cb ca, In o ops -> o <> G cb ca) ->
  get (last (fold_left (step codes tick) ops st)) u = get (last st) u.
Proof.
  induction ops as [|o ops IH]; intros st Hu Hg; cbn [fold_left]; [reflexivity|].
  rewrite IH.
  - destruct (op_thread o) as [t|] eqn:Ho.
    + apply (step_last_other codes tick st o t u Ho). intros ->. apply (Hu o (or_introl eq_refl)). exact Ho.
    + destruct o; cbn [op_thread] in Ho; try discriminate; cbn [step last]; try reflexivity.
      exfalso. exact (Hg (G cb ca) cb ca (or_introl eq_refl) eq_refl).
  - intros o' Hi. apply Hu. right. exact Hi.
  - intros o' cb ca Hi. apply (Hg o' cb ca). right. exact Hi.
Qed.

(* disable() records nothing and forgets exactly the caller's pending lines *)
Theorem disable_effect codes tick st t :
  cmap (step codes tick st (D t)) = cmap st
  /\ getd [] (last (step codes tick st (D t))) t = []
  /\ now (step codes tick st (D t)) = now st.
Proof. cbn [step cmap last now]. unfold getd. rewrite gss. repeat split. Qed.
