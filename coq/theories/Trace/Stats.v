(* What get_stats hands to the user, tied to the counters the theorems talk about:
   for a list of bucket keys hs, code_entries cm hs lists exactly the lines that occur in some
   bucket, each once, in increasing order, with the sums of hits and time over the buckets. *)
From Coq Require Import List ZArith Bool Lia Sorted Permutation.
From LP Require Import Trace.ZMap Trace.Concrete Trace.ConcreteFacts Trace.Abstract Trace.RefineLemmas.
Import ListNotations.
Open Scope Z_scope.

(* ---- association lists with unique keys --------------------------------------------------- *)
Lemma set_keys {A} (m : zmap A) k v : keys (set m k v) = if mem m k then keys m else keys m ++ [k].
Proof.
  unfold mem. induction m as [|[k0 v0] t IH]; cbn [set keys map get]; [reflexivity|].
  destruct (Z.eqb_spec k0 k) as [->|Hne]; cbn [map fst]; [reflexivity|].
  unfold keys in IH. rewrite IH. destruct (get t k); reflexivity.
Qed.

Lemma mem_keys {A} (m : zmap A) k : mem m k = true <-> In k (keys m).
Proof.
  unfold mem, keys. induction m as [|[k0 v0] t IH]; cbn [get map fst In]; [split; [discriminate|tauto]|].
  destruct (Z.eqb_spec k0 k) as [->|Hne]; [split; [left; reflexivity|reflexivity]|].
  rewrite IH. split; [right; assumption|intros [H|H]; [congruence|exact H]].
Qed.

Lemma NoDup_app_snoc {A} (l : list A) x : NoDup l -> ~ In x l -> NoDup (l ++ [x]).
Proof.
  induction l as [|a t IH]; intros Hnd Hni; cbn [app]; [constructor; [intros []|constructor]|].
  inversion Hnd as [|? ? Ha Ht]; subst. constructor.
  - rewrite in_app_iff. intros [H|[H|[]]]; [contradiction|subst; apply Hni; left; reflexivity].
  - apply IH; [exact Ht|intros H; apply Hni; right; exact H].
Qed.

Lemma set_nodup {A} (m : zmap A) k v : NoDup (keys m) -> NoDup (keys (set m k v)).
Proof.
  intros H. rewrite set_keys. destruct (mem m k) eqn:E; [exact H|].
  apply NoDup_app_snoc; [exact H|]. intros Hi. apply mem_keys in Hi. congruence.
Qed.

(* ---- totals of the entries for one line in a list of (line, (hits, time)) ----------------- *)
Fixpoint tot_h (ents : list (Z * entry)) (l : Z) : Z :=
  match ents with [] => 0 | (l0, (h, _)) :: t => (if Z.eqb l0 l then h else 0) + tot_h t l end.
Fixpoint tot_t (ents : list (Z * entry)) (l : Z) : Z :=
  match ents with [] => 0 | (l0, (_, tm)) :: t => (if Z.eqb l0 l then tm else 0) + tot_t t l end.
Definition occurs (ents : list (Z * entry)) (l : Z) : bool := existsb (fun e => Z.eqb (fst e) l) ents.

Definition merge_step (acc : zmap entry) (e : Z * entry) : zmap entry :=
  let '(l, (nh, tot)) := e in let '(nh0, tt0) := getd (0, 0) acc l in set acc l (nh0 + nh, tt0 + tot).

Lemma merge_entries_eq ents : merge_entries ents = fold_left merge_step ents [].
Proof. reflexivity. Qed.

Lemma merge_get ents : forall acc l,
  get (fold_left merge_step ents acc) l =
  if occurs ents l || mem acc l
  then Some (fst (getd (0, 0) acc l) + tot_h ents l, snd (getd (0, 0) acc l) + tot_t ents l)
  else None.
Proof.
  induction ents as [|[l0 [h tm]] t IH]; intros acc l; cbn [fold_left occurs existsb tot_h tot_t fst].
  - unfold mem, getd. destruct (get acc l) as [[a b]|]; cbn [orb fst snd]; [rewrite !Z.add_0_r; reflexivity|reflexivity].
  - rewrite IH. unfold merge_step. destruct (getd (0, 0) acc l0) as [nh0 tt0] eqn:Eg.
    rewrite mem_set, getd_set. fold (occurs t l).
    destruct (Z.eqb_spec l0 l) as [->|Hne]; cbn [orb].
    + rewrite orb_true_r. rewrite Eg. cbn [fst snd]. f_equal. f_equal; lia.
    + destruct (occurs t l || mem acc l); [f_equal; f_equal; lia|reflexivity].
Qed.

Lemma merge_nodup ents : forall acc, NoDup (keys acc) -> NoDup (keys (fold_left merge_step ents acc)).
Proof.
  induction ents as [|[l0 [h tm]] t IH]; intros acc H; cbn [fold_left]; [exact H|].
  apply IH. unfold merge_step. destruct (getd (0, 0) acc l0). apply set_nodup. exact H.
Qed.

(* totals distribute over the concatenation of buckets *)
Lemma tot_app a b l : tot_h (a ++ b) l = tot_h a l + tot_h b l /\ tot_t (a ++ b) l = tot_t a l + tot_t b l
                      /\ occurs (a ++ b) l = occurs a l || occurs b l.
Proof.
  induction a as [|[l0 [h tm]] t IH]; cbn [app tot_h tot_t occurs existsb fst]; [repeat split|].
  destruct IH as [H1 [H2 H3]]. fold (occurs (t ++ b) l). fold (occurs t l). rewrite H1, H2, H3.
  repeat split; try lia. rewrite orb_assoc. reflexivity.
Qed.

(* a bucket with unique keys: the totals are just the cell *)
Lemma tot_bucket (b : zmap entry) l : NoDup (keys b) ->
  tot_h b l = fst (getd (0, 0) b l) /\ tot_t b l = snd (getd (0, 0) b l) /\ occurs b l = mem b l.
Proof.
  unfold getd, mem. induction b as [|[l0 [h tm]] t IH]; intros Hnd; cbn [tot_h tot_t occurs existsb get fst keys map]; [repeat split|].
  inversion Hnd as [|? ? Hni Hnd']; subst. destruct (IH Hnd') as [H1 [H2 H3]]. fold (occurs t l).
  destruct (Z.eqb_spec l0 l) as [->|Hne]; cbn [orb fst snd].
  - assert (Hn : get t l = None).
    { destruct (get t l) eqn:Eg; [|reflexivity]. exfalso. apply Hni. apply mem_keys. unfold mem. rewrite Eg. reflexivity. }
    rewrite Hn in H1, H2. cbn in H1, H2. rewrite H1, H2. repeat split; lia.
  - rewrite H1, H2, H3. repeat split; lia.
Qed.

Definition buckets_nodup (cm : zmap (zmap entry)) : Prop := forall key, NoDup (keys (getd [] cm key)).

Lemma tot_flat (cm : zmap (zmap entry)) hs l : buckets_nodup cm ->
  tot_h (flat_map (fun k => getd [] cm k) hs) l = sumh cm hs l
  /\ tot_t (flat_map (fun k => getd [] cm k) hs) l = sumt cm hs l
  /\ occurs (flat_map (fun k => getd [] cm k) hs) l = existsb (fun k => mem (getd [] cm k) l) hs.
Proof.
  intros Hb. induction hs as [|k t IH]; cbn [flat_map sumh sumt fold_right existsb]; [repeat split|].
  destruct IH as [H1 [H2 H3]]. destruct (tot_app (getd [] cm k) (flat_map (fun k0 => getd [] cm k0) t) l) as [A1 [A2 A3]].
  destruct (tot_bucket (getd [] cm k) l (Hb k)) as [B1 [B2 B3]].
  rewrite A1, A2, A3, H1, H2, H3, B1, B2, B3. unfold sumh, sumt, bhits, btime. repeat split.
Qed.

(* ---- insertion sort on the line number ------------------------------------------------------- *)
Lemma insert_sorted_in e l x : In x (insert_sorted e l) <-> x = e \/ In x l.
Proof.
  induction l as [|y t IH]; cbn [insert_sorted In]; [intuition|].
  destruct (fst (fst e) <=? fst (fst y)); cbn [In]; [intuition|]. rewrite IH. intuition.
Qed.

Lemma sort_entries_in l x : In x (sort_entries l) <-> In x l.
Proof.
  unfold sort_entries. induction l as [|y t IH]; cbn [fold_right In]; [tauto|].
  rewrite insert_sorted_in, IH. intuition.
Qed.

Definition line_of (e : Z * Z * Z) : Z := fst (fst e).
Definition le_line (a b : Z * Z * Z) : Prop := line_of a <= line_of b.

Lemma insert_sorted_sorted e l : Sorted le_line l -> Sorted le_line (insert_sorted e l).
Proof.
  induction l as [|y t IH]; intros Hs; cbn [insert_sorted]; [repeat constructor|].
  fold (line_of e). fold (line_of y). destruct (Z.leb_spec (line_of e) (line_of y)).
  - constructor; [exact Hs|constructor; exact H].
  - inversion Hs as [|? ? Hst Hhd]; subst. constructor; [apply IH; exact Hst|].
    destruct t as [|z t']; cbn [insert_sorted].
    + constructor. unfold le_line. lia.
    + fold (line_of e). fold (line_of z). destruct (Z.leb_spec (line_of e) (line_of z)); constructor; unfold le_line.
      * lia.
      * inversion Hhd; subst. assumption.
Qed.

Lemma sort_entries_sorted l : Sorted le_line (sort_entries l).
Proof. unfold sort_entries. induction l as [|y t IH]; cbn [fold_right]; [constructor|apply insert_sorted_sorted; exact IH]. Qed.

(* ---- the entries reported for a list of bucket keys --------------------------------------------- *)
Lemma in_map_get (m : zmap entry) l h t : NoDup (keys m) ->
  In (l, h, t) (map (fun e => (fst e, fst (snd e), snd (snd e))) m) <-> get m l = Some (h, t).
Proof.
  induction m as [|[l0 [h0 t0]] r IH]; intros Hnd; cbn [map In get fst snd keys]; [split; [tauto|discriminate]|].
  inversion Hnd as [|? ? Hni Hnd']; subst. specialize (IH Hnd').
  destruct (Z.eqb_spec l0 l) as [->|Hne].
  - split.
    + intros [H|H]; [injection H as <- <-; reflexivity|]. exfalso. apply Hni. apply mem_keys. unfold mem.
      apply IH in H. rewrite H. reflexivity.
    + intros H. injection H as <- <-. left. reflexivity.
  - rewrite <- IH. split; [intros [H|H]; [injection H as -> _ _; congruence|exact H]|intros H; right; exact H].
Qed.

Theorem code_entries_spec (cm : zmap (zmap entry)) hs l h t : buckets_nodup cm ->
  In (l, h, t) (code_entries cm hs) <->
  (existsb (fun k => mem (getd [] cm k) l) hs = true /\ h = sumh cm hs l /\ t = sumt cm hs l).
Proof.
  intros Hb. unfold code_entries. rewrite sort_entries_in, merge_entries_eq.
  rewrite in_map_get by (apply merge_nodup; constructor).
  rewrite merge_get. destruct (tot_flat cm hs l Hb) as [H1 [H2 H3]]. rewrite H1, H2, H3.
  cbn [mem get getd fst snd]. rewrite orb_false_r.
  destruct (existsb (fun k => mem (getd [] cm k) l) hs).
  - split; [intros H; injection H as <- <-; repeat split; lia|intros [_ [-> ->]]; f_equal; f_equal; lia].
  - split; [discriminate|intros [H _]; discriminate].
Qed.

(* each line at most once, lines in non-decreasing (hence, being unique, increasing) order *)
Theorem code_entries_sorted cm hs : Sorted le_line (code_entries cm hs).
Proof. unfold code_entries. apply sort_entries_sorted. Qed.

Theorem code_entries_functional cm hs l h1 t1 h2 t2 : buckets_nodup cm ->
  In (l, h1, t1) (code_entries cm hs) -> In (l, h2, t2) (code_entries cm hs) -> h1 = h2 /\ t1 = t2.
Proof.
  intros Hb Ha Hc. apply (code_entries_spec cm hs l h1 t1 Hb) in Ha as [_ [-> ->]].
  apply (code_entries_spec cm hs l h2 t2 Hb) in Hc as [_ [-> ->]]. split; reflexivity.
Qed.

(* ---- the invariant holds along every run ---------------------------------------------------------- *)
Lemma keys_getd_set (m : zmap (zmap entry)) k v k' :
  getd [] (set m k v) k' = if Z.eqb k k' then v else getd [] m k'.
Proof. apply getd_set. Qed.

Lemma callback_buckets tick st t h l isl : buckets_nodup (cmap st) -> buckets_nodup (cmap (callback tick st t h l isl)).
Proof.
  intros Hb. unfold callback. destruct (get (cmap st) (LH h l)) as [bucket|] eqn:Eb; [|exact Hb].
  assert (Hbk : NoDup (keys bucket)) by (specialize (Hb (LH h l)); rewrite (getd_some [] _ _ _ Eb) in Hb; exact Hb).
  assert (Hc : buckets_nodup (match get (getd [] (last st) t) h with
                 | Some (old_l, old_t) => let '(nh, tot) := getd (0, 0) bucket old_l in
                     set (cmap st) (LH h l) (set bucket old_l (nh + 1, tot + (now st - old_t)))
                 | None => cmap st end)).
  { destruct (get (getd [] (last st) t) h) as [[ol ot]|]; [|exact Hb]. destruct (getd (0, 0) bucket ol).
    intros key. rewrite keys_getd_set. destruct (Z.eqb (LH h l) key); [apply set_nodup; exact Hbk|apply Hb]. }
  destruct isl; cbn [cmap]; exact Hc.
Qed.

Lemma step_buckets codes tick st o : buckets_nodup (cmap st) -> buckets_nodup (cmap (step codes tick st o)).
Proof.
  intros Hb. destruct o; cbn [step cmap]; try exact Hb.
  - unfold add_function. destruct (pad_step _ _ _). destruct (reg_lines _ _ _ _ _) as [cm hm] eqn:Er. cbn [cmap].
    intros key. replace cm with (fst (reg_lines (c_hash (nth_code codes ca)) ca (c_lines (nth_code codes ca)) (cmap st) (chm st))) by (rewrite Er; reflexivity).
    rewrite reg_lines_getd. apply Hb.
  - destruct (is_enabled st t); [apply callback_buckets; exact Hb|exact Hb].
  - destruct (is_enabled st t); [apply callback_buckets; exact Hb|exact Hb].
Qed.

Theorem run_buckets_nodup codes tick start ops : buckets_nodup (cmap (run codes tick start ops)).
Proof.
  unfold run. assert (H0 : buckets_nodup (cmap (init_state start))) by (intros key; cbn; constructor).
  generalize dependent (init_state start). induction ops as [|o ops IH]; intros st H; cbn [fold_left]; [exact H|].
  apply IH. apply step_buckets. exact H.
Qed.

(* ---- every cell that exists holds at least one hit ---------------------------------------------- *)
Definition cells_pos (cm : zmap (zmap entry)) : Prop :=
  forall key l, 0 <= bhits cm key l /\ (mem (getd [] cm key) l = true -> 1 <= bhits cm key l).

Lemma callback_cells tick st t h l isl : cells_pos (cmap st) -> cells_pos (cmap (callback tick st t h l isl)).
Proof.
  intros Hc. unfold callback. destruct (get (cmap st) (LH h l)) as [bucket|] eqn:Eb; [|exact Hc].
  assert (H : cells_pos (match get (getd [] (last st) t) h with
                 | Some (old_l, old_t) => let '(nh, tot) := getd (0, 0) bucket old_l in
                     set (cmap st) (LH h l) (set bucket old_l (nh + 1, tot + (now st - old_t)))
                 | None => cmap st end)).
  { destruct (get (getd [] (last st) t) h) as [[ol ot]|]; [|exact Hc].
    destruct (getd (0, 0) bucket ol) as [nh tot] eqn:Eg. intros key l0. unfold bhits.
    rewrite (cell_upd _ _ _ _ _ _ _ Eb), keys_getd_set.
    destruct (Z.eqb_spec (LH h l) key) as [<-|Hne]; [|apply Hc].
    destruct (Hc (LH h l) ol) as [Hnn _]. unfold bhits in Hnn. rewrite (getd_some [] _ _ _ Eb), Eg in Hnn. cbn [fst] in Hnn.
    destruct (Z.eqb_spec ol l0) as [<-|Hl].
    - cbn [fst]. split; [lia|intros _; lia].
    - destruct (Hc (LH h l) l0) as [H1 H2]. unfold bhits in H1, H2. split; [exact H1|].
      rewrite mem_set. destruct (Z.eqb_spec ol l0); [contradiction|]. cbn [orb].
      rewrite (getd_some [] _ _ _ Eb) in H2. rewrite (getd_some [] _ _ _ Eb). exact H2. }
  destruct isl; cbn [cmap]; exact H.
Qed.

Theorem run_cells_pos codes tick start ops : cells_pos (cmap (run codes tick start ops)).
Proof.
  unfold run. assert (H0 : cells_pos (cmap (init_state start))) by (intros key l; cbn; split; [lia|discriminate]).
  generalize dependent (init_state start). induction ops as [|o ops IH]; intros st H; cbn [fold_left]; [exact H|].
  apply IH. destruct o; cbn [step cmap]; try exact H.
  - unfold add_function. destruct (pad_step _ _ _) as [d' k']. destruct (reg_lines _ _ _ _ _) as [cm hm] eqn:Er. cbn [cmap].
    intros key l0. unfold bhits.
    replace cm with (fst (reg_lines (c_hash (nth_code codes ca)) ca (c_lines (nth_code codes ca)) (cmap st) (chm st))) by (rewrite Er; reflexivity).
    rewrite reg_lines_getd. apply H.
  - destruct (is_enabled st t); [apply callback_cells; exact H|exact H].
  - destruct (is_enabled st t); [apply callback_cells; exact H|exact H].
Qed.

Lemma sumh_pos cm hs l : cells_pos cm -> existsb (fun k => mem (getd [] cm k) l) hs = true -> 1 <= sumh cm hs l.
Proof.
  intros Hc. induction hs as [|k t IH]; cbn [existsb sumh fold_right]; [discriminate|].
  assert (Hnn : 0 <= sumh cm t l).
  { clear IH. induction t as [|k' t' IHt]; cbn [sumh fold_right]; [lia|]. destruct (Hc k' l) as [H _]. unfold sumh in IHt. lia. }
  unfold sumh in Hnn, IH. destruct (Hc k l) as [H0 H1].
  destruct (mem (getd [] cm k) l); cbn [orb]; [intros _; specialize (H1 eq_refl); lia|intros H; specialize (IH H); lia].
Qed.

(* every reported entry has at least one hit *)
Theorem code_entries_hits_pos cm hs l h t :
  buckets_nodup cm -> cells_pos cm -> In (l, h, t) (code_entries cm hs) -> 1 <= h.
Proof.
  intros Hb Hc Hi. apply (code_entries_spec cm hs l h t Hb) in Hi as [He [-> _]]. apply sumh_pos; assumption.
Qed.
