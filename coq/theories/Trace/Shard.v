(* what the E1 case shards evaluate *)
From Coq Require Import List ZArith Bool.
From LP Require Import Trace.ZMap Trace.Concrete Trace.Abstract Trace.Spec Trace.Main Trace.TimeExact.
Import ListNotations.
Open Scope Z_scope.

(* The right-hand sides of C01_hits_exact and C02_time_exact, evaluated directly (function-level
   definitions of the theorems, not the executable Spec.v) and compared with the implementation's LAST
   snapshot, label by label and line by line.  Only judged when the theorems' hypotheses hold. *)
Definition thm_hits (codes : list code) (tick : Z) (ops : list op) (lbl l : Z) : Z :=
  fold_right (fun c acc => if Z.eqb (c_lbl (nth_code codes c)) lbl
                           then executed codes tick ops c l - in_flight codes tick ops c l - dropped codes tick ops c l + acc
                           else acc) 0 (nodup Z.eq_dec (reg_codes ops)).
Definition thm_time (codes : list code) (tick : Z) (ops : list op) (lbl l : Z) : Z :=
  let g := g_run codes tick 0 ops in
  fold_right (fun c acc => if Z.eqb (c_lbl (nth_code codes c)) lbl then g_time g c l + acc else acc) 0
             (nodup Z.eq_dec (reg_codes ops)).

Definition last_snapshot (impl : list snapshot) : snapshot := List.last impl [].

(* true when the history ends with a snapshot (so that the last snapshot is the final state) *)
Definition ends_with_snapshot (ops : list op) : bool :=
  match rev ops with S :: _ => true | _ => false end.

Definition theorem_rhs_ok (codes : list code) (tick : Z) (with_time : bool) (ops : list op) (impl : list snapshot) : bool :=
  if negb (no_collision codes ops && ends_with_snapshot ops) then true else
  let snap := last_snapshot impl in
  let timed := with_time && nonreentrant_hist codes tick ops in
  forallb (fun c =>
     let lbl := c_lbl (nth_code codes c) in
     forallb (fun l =>
        let '(h, t) := match entry_of snap lbl l with Some e => e | None => (0, 0) end in
        Z.eqb h (thm_hits codes tick ops lbl l) && (negb timed || Z.eqb t (thm_time codes tick ops lbl l)))
        (label_lines codes lbl))
     (nodup Z.eq_dec (reg_codes ops)).

(* (model = implementation, spec hits = implementation, spec times = implementation,
    implementation snapshots well-formed and monotone, no_collision holds for the history,
    theorem right-hand sides = implementation's last snapshot) *)
Definition verdicts6 (codes : list code) (tick : Z) (with_time : bool) (ops : list op) (impl : list snapshot)
  : bool * bool * bool * bool * bool * bool :=
  (verdicts4 codes tick with_time ops impl, no_collision codes ops, theorem_rhs_ok codes tick with_time ops impl).
