(* what the E1 case shards evaluate *)
From Coq Require Import List ZArith Bool.
From LP Require Import Trace.ZMap Trace.Concrete Trace.Abstract Trace.Spec Trace.AbstractFacts Trace.Main Trace.TimeExact Trace.Conserved.
Import ListNotations.
Open Scope Z_scope.

(* The right-hand sides of C01_hits_exact and C02_time_exact, evaluated directly (function-level
   definitions of the theorems, not the executable Spec.v) and compared with the implementation's LAST
   snapshot, label by label and line by line.  Only judged when the theorems' hypotheses hold. *)
Definition thm_hits (codes : list code) (tick : Z) (ops : list op) (lbl l : Z) : Z :=
  fold_right (fun c acc => if Z.eqb (c_lbl (nth_code codes c)) lbl
                           then executed codes tick ops c l - in_flight codes tick ops c l - dropped codes tick ops c l + acc
                           else acc) 0 (nodup Z.eq_dec (reg_codes ops)).
Definition thm_time (codes : list code) (tick : Z) (ops : list op) (lbl l : Z) : Z :=
  let g := g_run codes tick 0 ops in
  fold_right (fun c acc => if Z.eqb (c_lbl (nth_code codes c)) lbl then g_time g c l + acc else acc) 0
             (nodup Z.eq_dec (reg_codes ops)).

Definition last_snapshot (impl : list snapshot) : snapshot := List.last impl [].

(* true when the history ends with a snapshot (so that the last snapshot is the final state) *)
Definition ends_with_snapshot (ops : list op) : bool :=
  match rev ops with S :: _ => true | _ => false end.

Definition theorem_rhs_ok (codes : list code) (tick : Z) (with_time : bool) (ops : list op) (impl : list snapshot) : bool :=
  if negb (no_collision codes ops && ends_with_snapshot ops) then true else
  let snap := last_snapshot impl in
  let timed := with_time && nonreentrant_hist codes tick ops in
  forallb (fun c =>
     let lbl := c_lbl (nth_code codes c) in
     forallb (fun l =>
        let '(h, t) := match entry_of snap lbl l with Some e => e | None => (0, 0) end in
        Z.eqb h (thm_hits codes tick ops lbl l) && (negb timed || Z.eqb t (thm_time codes tick ops lbl l)))
        (label_lines codes lbl))
     (nodup Z.eq_dec (reg_codes ops)).

(* (model = implementation, spec hits = implementation, spec times = implementation,
    implementation snapshots well-formed and monotone, no_collision holds for the history,
    theorem right-hand sides = implementation's last snapshot) *)
Definition verdicts6 (codes : list code) (tick : Z) (with_time : bool) (ops : list op) (impl : list snapshot)
  : bool * bool * bool * bool * bool * bool :=
  (verdicts4 codes tick with_time ops impl, no_collision codes ops, theorem_rhs_ok codes tick with_time ops impl).

(* The conservation clause of C02 (Conserved.reported_times_sum_le_enabled) evaluated on the IMPLEMENTATION's
   snapshots: at every get_stats() of a one-thread history, the times a label reports sum to at most the clock
   time during which the thread had the profiler enabled up to that point.  Judged when the theorem's executable
   hypotheses hold (no_collision, one thread) and the registered codes carry pairwise distinct labels (the report
   merges codes of one label). *)
Fixpoint snap_prefixes (pre ops : list op) : list (list op) :=
  match ops with
  | [] => []
  | S :: t => rev (S :: pre) :: snap_prefixes (S :: pre) t
  | o :: t => snap_prefixes (o :: pre) t
  end.
Definition label_total (snap : snapshot) (lbl : Z) : Z :=
  fold_right (fun e acc => if Z.eqb (fst e) lbl then fold_right (fun x a => snd x + a) 0 (snd e) + acc else acc) 0 snap.
Definition first_thread (ops : list op) : Z :=
  match flat_map (fun o => match op_thread o with Some t => [t] | None => [] end) ops with t :: _ => t | [] => 0 end.
Definition labels_distinct (codes : list code) (ops : list op) : bool :=
  let rc := nodup Z.eq_dec (reg_codes ops) in
  forallb (fun c1 => forallb (fun c2 => Z.eqb c1 c2 || negb (Z.eqb (c_lbl (nth_code codes c1)) (c_lbl (nth_code codes c2)))) rc) rc.
Definition conserved_ok (codes : list code) (tick : Z) (ops : list op) (impl : list snapshot) : bool :=
  let t0 := first_thread ops in
  if negb (no_collision codes ops && single_threadb t0 ops && labels_distinct codes ops) then true else
  forallb (fun ps =>
     let '(pre, snap) := ps in
     let en := enabled_time codes tick t0 pre in
     forallb (fun c => label_total snap (c_lbl (nth_code codes c)) <=? en) (nodup Z.eq_dec (reg_codes pre)))
    (combine (snap_prefixes [] ops) impl).

Definition verdicts7 (codes : list code) (tick : Z) (with_time : bool) (ops : list op) (impl : list snapshot)
  : bool * bool * bool * bool * bool * bool * bool :=
  (verdicts6 codes tick with_time ops impl, conserved_ok codes tick ops impl).
