(* what the E1 case shards evaluate *)
From Coq Require Import List ZArith Bool.
From LP Require Import Trace.ZMap Trace.Concrete Trace.Spec Trace.Main.
Import ListNotations.
Open Scope Z_scope.

(* (model = implementation, spec hits = implementation, spec times = implementation,
    implementation snapshots well-formed and monotone, no_collision holds for the history) *)
Definition verdicts5 (codes : list code) (tick : Z) (with_time : bool) (ops : list op) (impl : list snapshot)
  : bool * bool * bool * bool * bool :=
  (verdicts4 codes tick with_time ops impl, no_collision codes ops).
