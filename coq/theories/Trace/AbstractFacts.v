(* Hits are exact at the abstract level, for every history:
     hits(c,l) + pending(c,l) + dropped(c,l) = number of accepted line events at (c,l)
   where a pending line is one still in flight and a dropped one was in flight when its
   thread switched the profiler off.  No hypothesis about recursion or nesting: the slot
   shared by all activations of a code object is closed by whatever event comes next. *)
From Coq Require Import List ZArith Bool Lia.
From LP Require Import Trace.ZMap Trace.Concrete Trace.Abstract.
Import ListNotations.
Open Scope Z_scope.

Definition contrib (p : Z -> Z -> option (Z * Z)) (t c l : Z) : Z :=
  match p t c with Some (pl, _) => if Z.eqb pl l then 1 else 0 | None => 0 end.

Lemma pending_at_eq st threads c l :
  pending_at st threads c l = fold_right (fun t acc => contrib (ap st) t c l + acc) 0 threads.
Proof. reflexivity. Qed.

Definition psum (p : Z -> Z -> option (Z * Z)) (threads : list Z) (c l : Z) : Z :=
  fold_right (fun t acc => contrib p t c l + acc) 0 threads.

Lemma psum_ext p q threads c l :
  (forall t, In t threads -> contrib p t c l = contrib q t c l) -> psum p threads c l = psum q threads c l.
Proof.
  induction threads as [|a ts IH]; intros H; cbn [psum fold_right]; [reflexivity|].
  unfold psum in IH. rewrite IH by (intros t Ht; apply H; right; exact Ht).
  rewrite (H a) by (left; reflexivity). reflexivity.
Qed.

Lemma psum_upd p threads t c0 v c l :
  NoDup threads -> In t threads ->
  psum (updp p t c0 v) threads c l
  = psum p threads c l - contrib p t c l * (if Z.eqb c c0 then 1 else 0)
    + (if Z.eqb c c0 then match v with Some (pl, _) => if Z.eqb pl l then 1 else 0 | None => 0 end else 0).
Proof.
  intros Hnd Hin. induction threads as [|a ts IH]; [contradiction|].
  inversion Hnd as [|? ? Hna Hnd']; subst. cbn [psum fold_right].
  destruct Hin as [->|Hin].
  - assert (Hrest : psum (updp p t c0 v) ts c l = psum p ts c l).
    { apply psum_ext. intros t' Ht'. unfold contrib, updp.
      destruct (Z.eqb_spec t' t) as [->|]; [contradiction|]. reflexivity. }
    unfold psum in Hrest. rewrite Hrest. unfold contrib at 1, updp. rewrite Z.eqb_refl. cbn [andb].
    destruct (Z.eqb c c0); [destruct v as [[pl pt]|]|]; unfold contrib; lia.
  - unfold psum in IH. rewrite (IH Hnd' Hin).
    unfold contrib at 1, updp. destruct (Z.eqb_spec a t) as [->|]; [contradiction|]. cbn [andb].
    fold (contrib p a c l). lia.
Qed.

(* lines in flight that a disable() throws away *)
Fixpoint count_dropped (codes : list code) (tick : Z) (st : astate) (ops : list op) (c l : Z) : Z :=
  match ops with
  | [] => 0
  | o :: t =>
      (match o with D th => contrib (ap st) th c l | _ => 0 end)
      + count_dropped codes tick (a_step codes tick st o) t c l
  end.

Definition op_thread (o : op) : option Z :=
  match o with E t | D t | L t _ _ _ _ | R t _ _ _ _ => Some t | _ => None end.

Definition threads_cover (threads : list Z) (ops : list op) : Prop :=
  forall o t, In o ops -> op_thread o = Some t -> In t threads.

Lemma a_event_balance codes tick st t c0 l0 isl threads c l :
  NoDup threads -> In t threads ->
  let st' := a_event codes tick st t c0 l0 isl in
  ah st' c l + psum (ap st') threads c l
  = ah st c l + psum (ap st) threads c l
    + (if isl && a_accept codes st t c0 l0 && Z.eqb c0 c && Z.eqb l0 l then 1 else 0).
Proof.
  intros Hnd Hin. unfold a_event. destruct (a_accept codes st t c0 l0) eqn:Ea; cbn [negb];
    [|rewrite andb_false_r; cbn; lia].
  rewrite andb_true_r.
  assert (Hc : forall v, psum (updp (ap st) t c0 v) threads c l
                 = psum (ap st) threads c l - contrib (ap st) t c l * (if Z.eqb c c0 then 1 else 0)
                   + (if Z.eqb c c0 then match v with Some (pl, _) => if Z.eqb pl l then 1 else 0 | None => 0 end else 0))
    by (intros v; apply psum_upd; assumption).
  destruct (Z.eqb_spec c c0) as [->|Hne].
  - (* the event's own code *)
    rewrite Z.eqb_refl. cbn [andb].
    destruct (ap st t c0) as [[ol ot]|] eqn:Ep.
    + assert (Hk : contrib (ap st) t c0 l = if Z.eqb ol l then 1 else 0) by (unfold contrib; rewrite Ep; reflexivity).
      destruct isl; cbn [ah ap andb]; rewrite Hc, Hk; unfold upd2; rewrite Z.eqb_refl; cbn [andb];
        (destruct (Z.eqb_spec ol l) as [E|E];
         [subst ol; rewrite Z.eqb_refl|rewrite (proj2 (Z.eqb_neq l ol)) by congruence]);
        destruct (Z.eqb l0 l); lia.
    + assert (Hk : contrib (ap st) t c0 l = 0) by (unfold contrib; rewrite Ep; reflexivity).
      destruct isl; cbn [ah ap andb]; rewrite Hc, Hk; destruct (Z.eqb l0 l); lia.
  - destruct (Z.eqb_spec c0 c) as [->|_]; [congruence|]. rewrite andb_false_r. cbn [andb].
    destruct (ap st t c0) as [[ol ot]|] eqn:Ep; destruct isl; cbn [ah ap]; rewrite Hc; unfold upd2;
      try (destruct (Z.eqb_spec c c0); [congruence|]); cbn [andb]; lia.
Qed.

Lemma psum_disable p threads t c l :
  NoDup threads -> In t threads ->
  psum (fun x y => if Z.eqb x t then None else p x y) threads c l = psum p threads c l - contrib p t c l.
Proof.
  intros Hnd Hin. induction threads as [|a ts IH]; [contradiction|].
  inversion Hnd as [|? ? Hna Hnd']; subst. cbn [psum fold_right].
  destruct Hin as [->|Hin].
  - assert (Hrest : psum (fun x y => if Z.eqb x t then None else p x y) ts c l = psum p ts c l).
    { apply psum_ext. intros t' Ht'. unfold contrib. destruct (Z.eqb_spec t' t) as [->|]; [contradiction|reflexivity]. }
    unfold psum in Hrest. rewrite Hrest. unfold contrib at 1. rewrite Z.eqb_refl. lia.
  - unfold psum in IH. rewrite (IH Hnd' Hin). unfold contrib at 1.
    destruct (Z.eqb_spec a t) as [->|]; [contradiction|]. fold (contrib p a c l). lia.
Qed.

Theorem a_hits_balance codes tick threads c l : NoDup threads ->
  forall ops st, threads_cover threads ops ->
    let st' := fold_left (a_step codes tick) ops st in
    ah st' c l + psum (ap st') threads c l + count_dropped codes tick st ops c l
    = ah st c l + psum (ap st) threads c l + count_lines codes tick st ops c l.
Proof.
  intros Hnd. induction ops as [|o ops IH]; intros st Hcov; cbn [fold_left count_dropped count_lines]; [lia|].
  assert (Hcov' : threads_cover threads ops) by (intros o' t' Hi; apply Hcov; right; exact Hi).
  specialize (IH (a_step codes tick st o) Hcov'). cbn zeta in IH.
  assert (Hstep : ah (a_step codes tick st o) c l + psum (ap (a_step codes tick st o)) threads c l
                  + (match o with D th => contrib (ap st) th c l | _ => 0 end)
                  = ah st c l + psum (ap st) threads c l
                    + (match o with
                       | L th c' _ _ l' => if a_accept codes st th c' l' && Z.eqb c' c && Z.eqb l' l then 1 else 0
                       | _ => 0 end)).
  { destruct o; cbn [a_step].
    - destruct (inb ca (areg st) || _); cbn; lia.
    - cbn. lia.
    - cbn [ah ap]. rewrite psum_disable; [lia|exact Hnd|]. apply (Hcov (D t)); [left; reflexivity|reflexivity].
    - rewrite (a_event_balance codes tick st t c0 l0 true threads c l Hnd);
        [cbn [andb]; lia|apply (Hcov (L t c0 f s l0)); [left; reflexivity|reflexivity]].
    - rewrite (a_event_balance codes tick st t c0 l0 false threads c l Hnd);
        [cbn [andb]; lia|apply (Hcov (R t c0 f s l0)); [left; reflexivity|reflexivity]].
    - cbn. lia.
    - lia. }
  lia.
Qed.

(* The statement used by C01: from the initial state, reported hits are the accepted line
   events minus those still in flight and those a disable() dropped. *)
Corollary a_hits_exact codes tick start threads ops c l :
  NoDup threads -> threads_cover threads ops ->
  let st' := a_run codes tick start ops in
  ah st' c l = count_lines codes tick (a_init start) ops c l
               - psum (ap st') threads c l - count_dropped codes tick (a_init start) ops c l.
Proof.
  intros Hnd Hcov. pose proof (a_hits_balance codes tick threads c l Hnd ops (a_init start) Hcov) as H.
  cbn zeta in H. unfold a_run.
  assert (H0 : psum (ap (a_init start)) threads c l = 0).
  { clear. induction threads as [|a ts IH]; [reflexivity|]. cbn [psum fold_right]. unfold psum in IH. rewrite IH. reflexivity. }
  rewrite H0 in H. cbn [a_init ah] in H. lia.
Qed.

Lemma psum_nonneg p threads c l : 0 <= psum p threads c l.
Proof.
  induction threads as [|a ts IH]; cbn [psum fold_right]; [lia|]. unfold psum in IH.
  assert (0 <= contrib p a c l) by (unfold contrib; destruct (p a c) as [[pl pt]|]; [destruct (Z.eqb pl l)|]; lia).
  lia.
Qed.

Lemma count_dropped_nonneg codes tick ops : forall st c l, 0 <= count_dropped codes tick st ops c l.
Proof.
  induction ops as [|o ops IH]; intros st c l; cbn [count_dropped]; [lia|].
  specialize (IH (a_step codes tick st o) c l).
  destruct o; try lia.
  assert (0 <= contrib (ap st) t c l) by (unfold contrib; destruct (ap st t c) as [[pl pt]|]; [destruct (Z.eqb pl l)|]; lia).
  lia.
Qed.

(* never more hits than executions - with or without well-formedness *)
Corollary a_hits_le_count codes tick start threads ops c l :
  NoDup threads -> threads_cover threads ops ->
  ah (a_run codes tick start ops) c l <= count_lines codes tick (a_init start) ops c l.
Proof.
  intros Hnd Hcov. rewrite (a_hits_exact codes tick start threads ops c l Hnd Hcov).
  pose proof (psum_nonneg (ap (a_run codes tick start ops)) threads c l).
  pose proof (count_dropped_nonneg codes tick ops (a_init start) c l). lia.
Qed.
