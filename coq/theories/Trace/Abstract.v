(* The tracer without representation detail: hit/time counters per (code, line), one
   pending slot per (thread, code), a set of registered codes and of enabled threads.
   Not meant to be executed (maps are functions): it is the middle layer of the
   refinement  Concrete (hash buckets)  ->  Abstract  ->  counting of events. *)
From Coq Require Import List ZArith Bool Lia.
From LP Require Import Trace.ZMap Trace.Concrete.
Import ListNotations.
Open Scope Z_scope.

Record astate := mkas {
  ah : Z -> Z -> Z;                     (* code -> line -> hits *)
  atm : Z -> Z -> Z;                    (* code -> line -> time *)
  ap : Z -> Z -> option (Z * Z);        (* thread -> code -> pending (line, start time) *)
  areg : list Z;                        (* registered codes *)
  aen : list Z;                         (* enabled threads *)
  anow : Z
}.

Definition a_init (start : Z) : astate := mkas (fun _ _ => 0) (fun _ _ => 0) (fun _ _ => None) [] [] start.

Definition upd2 (f : Z -> Z -> Z) (a b v : Z) : Z -> Z -> Z :=
  fun x y => if Z.eqb x a && Z.eqb y b then v else f x y.
Definition updp (f : Z -> Z -> option (Z * Z)) (a b : Z) (v : option (Z * Z)) : Z -> Z -> option (Z * Z) :=
  fun x y => if Z.eqb x a && Z.eqb y b then v else f x y.

Definition inb (x : Z) (l : list Z) : bool := existsb (Z.eqb x) l.

Definition a_accept (codes : list code) (st : astate) (t c l : Z) : bool :=
  inb t (aen st) && inb c (areg st) && inb l (c_lines (nth_code codes c)).

Definition a_event (codes : list code) (tick : Z) (st : astate) (t c l : Z) (is_line : bool) : astate :=
  if negb (a_accept codes st t c l) then st else
  let time1 := anow st in
  let now1 := anow st + tick in
  let '(h1, t1) := match ap st t c with
                   | Some (ol, ot) => (upd2 (ah st) c ol (ah st c ol + 1), upd2 (atm st) c ol (atm st c ol + (time1 - ot)))
                   | None => (ah st, atm st)
                   end in
  if is_line then mkas h1 t1 (updp (ap st) t c (Some (l, now1))) (areg st) (aen st) (now1 + tick)
  else mkas h1 t1 (updp (ap st) t c None) (areg st) (aen st) now1.

Definition a_step (codes : list code) (tick : Z) (st : astate) (o : op) : astate :=
  match o with
  | G cb ca => if inb ca (areg st) || list_eqb Z.eqb (c_lines (nth_code codes ca)) [] then st
               else mkas (ah st) (atm st) (ap st) (ca :: areg st) (aen st) (anow st)
  | E t => mkas (ah st) (atm st) (ap st) (areg st) (t :: aen st) (anow st)
  | D t => mkas (ah st) (atm st) (fun x y => if Z.eqb x t then None else ap st x y) (areg st)
                (filter (fun x => negb (Z.eqb x t)) (aen st)) (anow st)
  | L t c f s l => a_event codes tick st t c l true
  | R t c f s l => a_event codes tick st t c l false
  | A d => mkas (ah st) (atm st) (ap st) (areg st) (aen st) (anow st + d)
  | S => st
  end.

Definition a_run (codes : list code) (tick start : Z) (ops : list op) : astate :=
  fold_left (a_step codes tick) ops (a_init start).

(* ---- counting line events: the right-hand side of "hits are exact" ------------------- *)
(* number of accepted line events at (c, l) in a history, evaluated along the abstract run *)
Fixpoint count_lines (codes : list code) (tick : Z) (st : astate) (ops : list op) (c l : Z) : Z :=
  match ops with
  | [] => 0
  | o :: t =>
      (match o with
       | L th c' _ _ l' => if a_accept codes st th c' l' && Z.eqb c' c && Z.eqb l' l then 1 else 0
       | _ => 0
       end) + count_lines codes tick (a_step codes tick st o) t c l
  end.

(* number of threads whose pending slot for code c holds line l *)
Definition pending_at (st : astate) (threads : list Z) (c l : Z) : Z :=
  fold_right (fun t acc => (match ap st t c with Some (pl, _) => if Z.eqb pl l then 1 else 0 | None => 0 end) + acc) 0 threads.
