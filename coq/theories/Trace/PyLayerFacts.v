(* Facts about the Python layer of LineProfiler as regenerated into Gen/PyLayer.v: the reading methods are
   snapshots (so they change no later result), the registration entry points hand every function they are
   given - and nothing else - to add_function. *)
From Coq Require Import List ZArith Bool.
From LP Require Import Trace.ZMap Trace.Concrete Trace.ConcreteFacts Gen.PyLayer.
Import ListNotations.
Open Scope Z_scope.

Definition not_snapshot (o : op) : bool := match o with S => false | _ => true end.

Lemma filter_reader r ops1 ops2 :
  filter not_snapshot (ops1 ++ reader_ops r ++ ops2) = filter not_snapshot (ops1 ++ ops2).
Proof. rewrite !filter_app. destruct r; reflexivity. Qed.

(* whatever is read, by whichever method, wherever in the history: the tables afterwards are those of the
   history without the read *)
Theorem readers_are_snapshots r codes tick start ops1 ops2 :
  core (run codes tick start (ops1 ++ reader_ops r ++ ops2)) = core (run codes tick start (ops1 ++ ops2)).
Proof.
  rewrite (snapshots_are_pure codes tick start (ops1 ++ reader_ops r ++ ops2)).
  rewrite (snapshots_are_pure codes tick start (ops1 ++ ops2)).
  change (fun o : op => match o with S => false | _ => true end) with not_snapshot.
  rewrite filter_reader. reflexivity.
Qed.

Lemma get_stats_core codes st1 st2 : core st1 = core st2 -> get_stats codes st1 = get_stats codes st2.
Proof. unfold core. intros H. injection H as H1 H2 _ _ _ _ _. unfold get_stats. rewrite H1, H2. reflexivity. Qed.

(* ... and so is every later report *)
Theorem later_reports_unchanged r codes tick start ops1 ops2 :
  get_stats codes (run codes tick start (ops1 ++ reader_ops r ++ ops2)) = get_stats codes (run codes tick start (ops1 ++ ops2)).
Proof. apply get_stats_core, readers_are_snapshots. Qed.

Theorem readers_change_nothing r codes tick start ops1 ops2 :
  core (run codes tick start (ops1 ++ reader_ops r ++ ops2)) = core (run codes tick start (ops1 ++ ops2))
  /\ get_stats codes (run codes tick start (ops1 ++ reader_ops r ++ ops2)) = get_stats codes (run codes tick start (ops1 ++ ops2)).
Proof. split; [apply readers_are_snapshots|apply later_reports_unchanged]. Qed.

(* ---- registration entry points ---------------------------------------------------------------- *)
Lemma class_funcs_in ms c : In c (class_funcs ms) <-> In (IFunc c) ms.
Proof.
  unfold class_funcs. rewrite in_flat_map. split.
  - intros [m [Hm Hc]]. destruct m; cbn in Hc; try contradiction. destruct Hc as [<-|[]]. exact Hm.
  - intros H. exists (IFunc c). split; [exact H|left; reflexivity].
Qed.

Theorem add_module_targets_exact members c :
  In c (gen_add_module_targets members) <->
  In (IFunc c) members \/ exists ms, In (IClass ms) members /\ In (IFunc c) ms.
Proof.
  unfold gen_add_module_targets. rewrite in_flat_map. split.
  - intros [m [Hm Hc]]. destruct m as [c0|ms|ms|]; cbn in Hc; try contradiction.
    + destruct Hc as [<-|[]]. left. exact Hm.
    + right. exists ms. split; [exact Hm|apply class_funcs_in; exact Hc].
  - intros [H|[ms [H1 H2]]].
    + exists (IFunc c). split; [exact H|left; reflexivity].
    + exists (IClass ms). split; [exact H1|apply class_funcs_in; exact H2].
Qed.

Theorem imported_targets_exact it c :
  In c (fst (gen_imported_targets it)) <->
  match it with
  | IFunc c0 => c = c0
  | IClass ms => In (IFunc c) ms
  | IModule ms => In (IFunc c) ms \/ exists cs, In (IClass cs) ms /\ In (IFunc c) cs
  | IOther => False
  end.
Proof.
  destruct it as [c0|ms|ms|]; cbn [gen_imported_targets fst].
  - cbn. intuition congruence.
  - apply class_funcs_in.
  - apply add_module_targets_exact.
  - cbn. tauto.
Qed.

(* a function handed over several times (two names for one function, a method shared by two classes) is
   registered as many times: multiplicities are kept, nothing is de-duplicated at this layer *)
Theorem add_module_targets_multiplicity a b :
  gen_add_module_targets (a ++ b) = gen_add_module_targets a ++ gen_add_module_targets b.
Proof. unfold gen_add_module_targets. apply flat_map_app. Qed.

(* whenever something is registered through the auto-profiling hook the profiler is switched on (by count) *)
Theorem imported_enables it : fst (gen_imported_targets it) <> [] -> snd (gen_imported_targets it) = true.
Proof. destruct it; cbn; congruence. Qed.

(* ---- what a registration achieves in the core ---------------------------------------------------- *)
From LP Require Import Trace.Stats Trace.LabelMono.

Lemma reg_lines_registers h c lines : forall cm hm,
  (exists l, In l lines /\ mem cm (LH h l) = false) ->
  mem (snd (reg_lines h c lines cm hm)) c = true.
Proof.
  induction lines as [|l t IH]; intros cm hm [l0 [Hin Hm]]; [destruct Hin|].
  cbn [reg_lines]. destruct (mem cm (LH h l)) eqn:E.
  - destruct Hin as [->|Hin]; [congruence|]. apply IH. exists l0. split; assumption.
  - apply mem_keys. apply reg_lines_keeps. apply mem_keys. unfold mem. rewrite gss. reflexivity.
Qed.

(* add_function on a code object that brings at least one line hash the profiler has not seen makes that code object
   a key of code_hash_map - i.e. it gets its own entry in every later report.  (When ALL its line hashes are already
   taken - byte-identical code after colliding NOP paddings - it does not: the known C04 padding finding.) *)
Theorem registration_creates_entry codes st cb ca :
  (exists l, In l (c_lines (nth_code codes ca)) /\ mem (cmap st) (LH (c_hash (nth_code codes ca)) l) = false) ->
  mem (chm (add_function codes st cb ca)) ca = true.
Proof.
  intros H. unfold add_function. destruct (pad_step _ _ _) as [d' k'].
  destruct (reg_lines _ _ _ _ _) as [cm hm] eqn:Er. cbn [chm].
  replace hm with (snd (reg_lines (c_hash (nth_code codes ca)) ca (c_lines (nth_code codes ca)) (cmap st) (chm st))) by (rewrite Er; reflexivity).
  apply reg_lines_registers. exact H.
Qed.
