(* The snapshot handed to the user (get_stats) in terms of the counters of the theorems. *)
From Coq Require Import List ZArith Bool Lia Sorted.
From LP Require Import Trace.ZMap Trace.Concrete Trace.ConcreteFacts Trace.Abstract Trace.AbstractFacts
     Trace.RefineLemmas Trace.Refine Trace.Main Trace.Stats.
Import ListNotations.
Open Scope Z_scope.

Lemma insert_lbl_in e l x : In x (insert_lbl e l) -> x = e \/ In x l.
Proof.
  induction l as [|y t IH]; cbn [insert_lbl In]; [intuition|].
  destruct (fst e <? fst y); cbn [In]; [intuition|].
  destruct (fst e =? fst y); cbn [In]; [intuition|]. intros [H|H]; [intuition|]. apply IH in H. intuition.
Qed.

(* every entry of a snapshot: its label belongs to a registered code object and its lines are the
   merged, sorted cells of ALL code objects carrying that label *)
Theorem get_stats_in codes st lbl ents :
  In (lbl, ents) (get_stats codes st) ->
  ents = code_entries (cmap st) (label_hashes codes (chm st) lbl)
  /\ exists ch, In ch (chm st) /\ lbl = c_lbl (nth_code codes (fst ch)).
Proof.
  unfold get_stats.
  assert (H : forall l acc,
             (forall x, In x acc -> snd x = code_entries (cmap st) (label_hashes codes (chm st) (fst x))
                                    /\ exists ch, In ch (chm st) /\ fst x = c_lbl (nth_code codes (fst ch))) ->
             (forall ch, In ch l -> In ch (chm st)) ->
             forall x, In x (fold_left (fun acc ch => let lbl := c_lbl (nth_code codes (fst ch)) in
                           insert_lbl (lbl, code_entries (cmap st) (label_hashes codes (chm st) lbl)) acc) l acc) ->
                       snd x = code_entries (cmap st) (label_hashes codes (chm st) (fst x))
                       /\ exists ch, In ch (chm st) /\ fst x = c_lbl (nth_code codes (fst ch))).
  { induction l as [|ch l IH]; intros acc Hacc Hsub x Hx; cbn [fold_left] in Hx; [apply Hacc; exact Hx|].
    apply (IH _) in Hx; [exact Hx| |intros c Hc; apply Hsub; right; exact Hc].
    intros y Hy. apply insert_lbl_in in Hy as [->|Hy]; [|apply Hacc; exact Hy].
    cbn [fst snd]. split; [reflexivity|]. exists ch. split; [apply Hsub; left; reflexivity|reflexivity]. }
  intros Hin. specialize (H (chm st) [] (fun x Hx => match Hx with end) (fun ch Hc => Hc) (lbl, ents) Hin).
  cbn [fst snd] in H. exact H.
Qed.

(* sorted by line, one entry per line, values = sums over the label's buckets *)
Theorem snapshot_entry_values codes tick start ops lbl ents l h t :
  let st := run codes tick start ops in
  In (lbl, ents) (get_stats codes st) -> In (l, h, t) ents ->
  h = sumh (cmap st) (label_hashes codes (chm st) lbl) l
  /\ t = sumt (cmap st) (label_hashes codes (chm st) lbl) l
  /\ Sorted le_line ents.
Proof.
  intros st Hin He. destruct (get_stats_in codes st lbl ents Hin) as [-> _].
  apply (code_entries_spec _ _ l h t (run_buckets_nodup codes tick start ops)) in He as [_ [-> ->]].
  repeat split. apply code_entries_sorted.
Qed.

(* when the label belongs to a single registered code object c, the entry IS reported_hits/time of c *)
Lemma label_hashes_single codes (hm : zmap (list Z)) lbl c :
  NoDup (keys hm) ->
  (forall ch, In ch hm -> c_lbl (nth_code codes (fst ch)) = lbl -> fst ch = c) ->
  (mem hm c = true -> c_lbl (nth_code codes c) = lbl) ->
  label_hashes codes hm lbl = getd [] hm c.
Proof.
  unfold label_hashes, getd, mem. induction hm as [|[c0 hs0] t IH]; intros Hnd Hu Hl; cbn [flat_map get fst snd keys map]; [reflexivity|].
  inversion Hnd as [|? ? Hni Hnd']; subst.
  destruct (Z.eqb_spec c0 c) as [->|Hne].
  - assert (El : c_lbl (nth_code codes c) = lbl) by (apply Hl; cbn [get]; rewrite Z.eqb_refl; reflexivity).
    rewrite El, Z.eqb_refl.
    assert (Hrest : flat_map (fun ch => if Z.eqb (c_lbl (nth_code codes (fst ch))) lbl then snd ch else []) t = []).
    { assert (Hno : forall ch, In ch t -> c_lbl (nth_code codes (fst ch)) <> lbl).
      { intros ch Hc E. apply Hni. rewrite <- (Hu ch (or_intror Hc) E). apply in_map. exact Hc. }
      clear -Hno. induction t as [|ch t' IHt]; [reflexivity|]. cbn [flat_map].
      destruct (Z.eqb_spec (c_lbl (nth_code codes (fst ch))) lbl) as [E|E]; [exfalso; apply (Hno ch (or_introl eq_refl) E)|].
      cbn [app]. apply IHt. intros c' Hc'. apply Hno. right. exact Hc'. }
    rewrite Hrest. apply app_nil_r.
  - destruct (Z.eqb_spec (c_lbl (nth_code codes c0)) lbl) as [E|E].
    + exfalso. apply Hne. apply (Hu (c0, hs0)); [left; reflexivity|exact E].
    + cbn [app]. apply IH; [exact Hnd'|intros ch Hc; apply Hu; right; exact Hc|].
      intros Hm. apply Hl. cbn [get]. destruct (Z.eqb_spec c0 c); [contradiction|exact Hm].
Qed.

(* chm has unique keys along every run *)
Lemma reg_lines_keys h c lines : forall cm hm, NoDup (keys hm) -> NoDup (keys (snd (reg_lines h c lines cm hm))).
Proof.
  induction lines as [|l t IH]; intros cm hm H; cbn [reg_lines]; [exact H|].
  destruct (mem cm (LH h l)); [apply IH; exact H|apply IH; apply set_nodup; exact H].
Qed.

Theorem run_chm_nodup codes tick start ops : NoDup (keys (chm (run codes tick start ops))).
Proof.
  unfold run. assert (H0 : NoDup (keys (chm (init_state start)))) by constructor.
  generalize dependent (init_state start). induction ops as [|o ops IH]; intros st H; cbn [fold_left]; [exact H|].
  apply IH. destruct o; cbn [step chm]; try exact H.
  - unfold add_function. destruct (pad_step _ _ _). destruct (reg_lines _ _ _ _ _) as [cm hm] eqn:Er. cbn [chm].
    replace hm with (snd (reg_lines (c_hash (nth_code codes ca)) ca (c_lines (nth_code codes ca)) (cmap st) (chm st))) by (rewrite Er; reflexivity).
    apply reg_lines_keys. exact H.
  - destruct (is_enabled st t); [|exact H]. unfold callback. destruct (get (cmap st) _); [|exact H].
    destruct (get (getd [] (last st) t) _) as [[ol ot]|]; exact H.
  - destruct (is_enabled st t); [|exact H]. unfold callback. destruct (get (cmap st) _); [|exact H].
    destruct (get (getd [] (last st) t) _) as [[ol ot]|]; exact H.
Qed.

(* C01 at the level of the report: with distinct labels, what the snapshot shows for (label of c, line l)
   is reported_hits c l, hence - by hits_exact - the executed count *)
Theorem snapshot_shows_reported codes tick ops c ents l h t :
  (forall ch, In ch (chm (run codes tick 0 ops)) ->
              c_lbl (nth_code codes (fst ch)) = c_lbl (nth_code codes c) -> fst ch = c) ->
  In (c_lbl (nth_code codes c), ents) (get_stats codes (run codes tick 0 ops)) -> In (l, h, t) ents ->
  h = reported_hits (run codes tick 0 ops) c l /\ t = reported_time (run codes tick 0 ops) c l.
Proof.
  intros Hu Hin He.
  pose proof (snapshot_entry_values codes tick 0 ops _ ents l h t Hin He) as H. cbn zeta in H. destruct H as [Hh [Ht _]].
  unfold reported_hits, reported_time.
  assert (E : label_hashes codes (chm (run codes tick 0 ops)) (c_lbl (nth_code codes c)) = getd [] (chm (run codes tick 0 ops)) c)
    by (apply label_hashes_single; [apply run_chm_nodup|exact Hu|reflexivity]).
  rewrite E in Hh, Ht. split; assumption.
Qed.

Theorem snapshot_wellformed :
  forall codes tick start ops lbl ents,
    In (lbl, ents) (get_stats codes (run codes tick start ops)) ->
    Sorted le_line ents
    /\ (forall l h1 t1 h2 t2, In (l, h1, t1) ents -> In (l, h2, t2) ents -> h1 = h2 /\ t1 = t2)
    /\ (forall l h t, In (l, h, t) ents -> 1 <= h).
Proof.
  intros codes tick start ops lbl ents Hin.
  destruct (get_stats_in codes _ lbl ents Hin) as [-> _].
  split; [apply code_entries_sorted|]. split.
  - intros l h1 t1 h2 t2. apply code_entries_functional. apply run_buckets_nodup.
  - intros l h t. apply code_entries_hits_pos; [apply run_buckets_nodup|apply run_cells_pos].
Qed.
