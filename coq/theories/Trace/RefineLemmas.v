(* Helper lemmas for the refinement Concrete -> Abstract: sums over a code's buckets,
   what the registration loop does, xor cancellation. *)
From Coq Require Import List ZArith Bool Lia.
From LP Require Import Trace.ZMap Trace.Concrete Trace.ConcreteFacts Trace.Abstract.
Import ListNotations.
Open Scope Z_scope.

Lemma inb_In x l : inb x l = true <-> In x l.
Proof.
  unfold inb. rewrite existsb_exists. split.
  - intros [y [Hy He]]. apply Z.eqb_eq in He. subst. exact Hy.
  - intros H. exists x. split; [exact H|apply Z.eqb_refl].
Qed.

Lemma inb_false x l : inb x l = false <-> ~ In x l.
Proof. rewrite <- inb_In. destruct (inb x l); split; congruence. Qed.

Lemma LH_inj h l1 l2 : LH h l1 = LH h l2 -> l1 = l2.
Proof.
  unfold LH. intros H. apply Z.lxor_eq.
  replace (Z.lxor l1 l2) with (Z.lxor (Z.lxor h l1) (Z.lxor h l2)).
  - rewrite H. apply Z.lxor_nilpotent.
  - rewrite (Z.lxor_comm h l1), Z.lxor_assoc, <- (Z.lxor_assoc h h l2), Z.lxor_nilpotent, Z.lxor_0_l. reflexivity.
Qed.

(* ---- membership / get through set ------------------------------------------------------ *)
Lemma mem_set {A} (m : zmap A) k v k' : mem (set m k v) k' = Z.eqb k k' || mem m k'.
Proof. unfold mem. rewrite get_set. destruct (Z.eqb k k'); [reflexivity|]. reflexivity. Qed.

Lemma mem_get {A} (m : zmap A) k : mem m k = true <-> exists v, get m k = Some v.
Proof. unfold mem. destruct (get m k); split; try congruence; [eexists; reflexivity|intros [v Hv]; discriminate]. Qed.

(* ---- sums over the buckets of one code ------------------------------------------------- *)
Definition sumh (cm : zmap (zmap entry)) (hs : list Z) (l : Z) : Z :=
  fold_right (fun k acc => bhits cm k l + acc) 0 hs.
Definition sumt (cm : zmap (zmap entry)) (hs : list Z) (l : Z) : Z :=
  fold_right (fun k acc => btime cm k l + acc) 0 hs.

Lemma sumh_ext cm cm' hs l : (forall k, In k hs -> bhits cm' k l = bhits cm k l) -> sumh cm' hs l = sumh cm hs l.
Proof.
  induction hs as [|a t IH]; intros H; cbn [sumh fold_right]; [reflexivity|].
  unfold sumh in IH. rewrite IH by (intros k Hk; apply H; right; exact Hk). rewrite (H a) by (left; reflexivity). reflexivity.
Qed.
Lemma sumt_ext cm cm' hs l : (forall k, In k hs -> btime cm' k l = btime cm k l) -> sumt cm' hs l = sumt cm hs l.
Proof.
  induction hs as [|a t IH]; intros H; cbn [sumt fold_right]; [reflexivity|].
  unfold sumt in IH. rewrite IH by (intros k Hk; apply H; right; exact Hk). rewrite (H a) by (left; reflexivity). reflexivity.
Qed.

(* the callback's update of one cell *)
Definition cell_add (cm : zmap (zmap entry)) (key : Z) (bucket : zmap entry) (ol dh dt : Z) : zmap (zmap entry) :=
  let '(nh, tot) := getd (0, 0) bucket ol in set cm key (set bucket ol (nh + dh, tot + dt)).

Lemma bhits_cell_add cm key bucket ol dh dt k l :
  get cm key = Some bucket ->
  bhits (cell_add cm key bucket ol dh dt) k l = bhits cm k l + (if Z.eqb key k && Z.eqb ol l then dh else 0).
Proof.
  intros H. unfold cell_add, bhits. destruct (getd (0, 0) bucket ol) as [nh tot] eqn:Eg.
  rewrite (cell_upd _ _ _ _ _ _ _ H). destruct (Z.eqb_spec key k) as [<-|]; cbn [andb]; [|lia].
  destruct (Z.eqb_spec ol l) as [<-|]; [|lia]. rewrite (getd_some [] _ _ _ H), Eg. cbn. lia.
Qed.
Lemma btime_cell_add cm key bucket ol dh dt k l :
  get cm key = Some bucket ->
  btime (cell_add cm key bucket ol dh dt) k l = btime cm k l + (if Z.eqb key k && Z.eqb ol l then dt else 0).
Proof.
  intros H. unfold cell_add, btime. destruct (getd (0, 0) bucket ol) as [nh tot] eqn:Eg.
  rewrite (cell_upd _ _ _ _ _ _ _ H). destruct (Z.eqb_spec key k) as [<-|]; cbn [andb]; [|lia].
  destruct (Z.eqb_spec ol l) as [<-|]; [|lia]. rewrite (getd_some [] _ _ _ H), Eg. cbn. lia.
Qed.

Lemma mem_cell_add cm key bucket ol dh dt k :
  get cm key = Some bucket -> mem (cell_add cm key bucket ol dh dt) k = mem cm k.
Proof.
  intros H. unfold cell_add. destruct (getd (0, 0) bucket ol). rewrite mem_set.
  destruct (Z.eqb_spec key k) as [<-|]; [|reflexivity]. unfold mem. rewrite H. reflexivity.
Qed.

Lemma sumh_cell_add cm key bucket ol dh dt hs l :
  get cm key = Some bucket -> NoDup hs ->
  sumh (cell_add cm key bucket ol dh dt) hs l
  = sumh cm hs l + (if inb key hs && Z.eqb ol l then dh else 0).
Proof.
  intros H Hnd. induction hs as [|a t IH]; cbn [sumh fold_right inb existsb]; [cbn; lia|].
  inversion Hnd as [|? ? Hna Hnd']; subst. unfold sumh in IH. rewrite (IH Hnd'), bhits_cell_add by exact H.
  fold (inb key t). destruct (Z.eqb_spec key a) as [->|Hne]; cbn [orb andb].
  - assert (E : inb a t = false) by (apply inb_false; exact Hna). rewrite E. cbn [andb]. destruct (Z.eqb ol l); lia.
  - destruct (inb key t && Z.eqb ol l); lia.
Qed.
Lemma sumt_cell_add cm key bucket ol dh dt hs l :
  get cm key = Some bucket -> NoDup hs ->
  sumt (cell_add cm key bucket ol dh dt) hs l
  = sumt cm hs l + (if inb key hs && Z.eqb ol l then dt else 0).
Proof.
  intros H Hnd. induction hs as [|a t IH]; cbn [sumt fold_right inb existsb]; [cbn; lia|].
  inversion Hnd as [|? ? Hna Hnd']; subst. unfold sumt in IH. rewrite (IH Hnd'), btime_cell_add by exact H.
  fold (inb key t). destruct (Z.eqb_spec key a) as [->|Hne]; cbn [orb andb].
  - assert (E : inb a t = false) by (apply inb_false; exact Hna). rewrite E. cbn [andb]. destruct (Z.eqb ol l); lia.
  - destruct (inb key t && Z.eqb ol l); lia.
Qed.

(* ---- the registration loop ---------------------------------------------------------------- *)
Lemma reg_lines_mem h c lines : forall cm hm key,
  mem (fst (reg_lines h c lines cm hm)) key = mem cm key || inb key (map (LH h) lines).
Proof.
  induction lines as [|l t IH]; intros cm hm key; cbn [reg_lines map inb existsb]; [rewrite orb_false_r; reflexivity|].
  fold (inb key (map (LH h) t)).
  destruct (mem cm (LH h l)) eqn:Em.
  - rewrite IH. destruct (Z.eqb_spec key (LH h l)) as [->|]; [rewrite Em; reflexivity|reflexivity].
  - rewrite IH, mem_set. rewrite (Z.eqb_sym (LH h l) key). destruct (Z.eqb key (LH h l)); cbn [orb];
      [rewrite orb_true_r; reflexivity|reflexivity].
Qed.

Lemma reg_lines_other h c lines : forall cm hm c', c' <> c ->
  get (snd (reg_lines h c lines cm hm)) c' = get hm c'.
Proof.
  induction lines as [|l t IH]; intros cm hm c' Hne; cbn [reg_lines]; [reflexivity|].
  destruct (mem cm (LH h l)); [apply IH; exact Hne|]. rewrite IH by exact Hne. apply gso. exact Hne.
Qed.

(* the keys appended for c: exactly the line hashes that were not in the map, each once *)
Lemma reg_lines_new h c lines : forall cm hm,
  exists news,
    getd [] (snd (reg_lines h c lines cm hm)) c = getd [] hm c ++ news
    /\ NoDup news
    /\ (forall key, In key news <-> (mem cm key = false /\ In key (map (LH h) lines)))
    /\ (news = [] -> snd (reg_lines h c lines cm hm) = hm)
    /\ (news <> [] -> mem (snd (reg_lines h c lines cm hm)) c = true).
Proof.
  induction lines as [|l t IH]; intros cm hm; cbn [reg_lines map].
  - exists []. rewrite app_nil_r. split; [reflexivity|]. split; [constructor|]. split; [|split].
    + intros key; split; [intros []|intros [_ []]].
    + reflexivity.
    + congruence.
  - destruct (mem cm (LH h l)) eqn:Em.
    + destruct (IH cm hm) as [news [H1 [H2 [H3 [H4 H5]]]]]. exists news.
      split; [exact H1|]. split; [exact H2|]. split; [|split; [exact H4|exact H5]].
      intros key. split.
      * intros Hi. apply H3 in Hi as [Ha Hb]. split; [exact Ha|right; exact Hb].
      * intros [Ha [Hb|Hb]]; [subst; congruence|]. apply H3. split; assumption.
    + destruct (IH (set cm (LH h l) []) (set hm c (getd [] hm c ++ [LH h l]))) as [news [H1 [H2 [H3 [H4 H5]]]]].
      exists (LH h l :: news). split; [|split; [|split; [|split]]].
      * rewrite H1, getd_set, Z.eqb_refl, <- app_assoc. reflexivity.
      * constructor; [|exact H2]. intros Hi. apply H3 in Hi as [Ha _]. rewrite mem_set, Z.eqb_refl in Ha. discriminate.
      * intros key. split.
        -- intros [<-|Hi]; [split; [exact Em|left; reflexivity]|].
           apply H3 in Hi as [Ha Hb]. rewrite mem_set in Ha. apply orb_false_elim in Ha as [_ Ha]. split; [exact Ha|right; exact Hb].
        -- intros [Ha [Hb|Hb]]; [left; exact Hb|].
           destruct (Z.eq_dec (LH h l) key) as [e|n]; [left; exact e|]. right. apply H3. split; [|exact Hb].
           rewrite mem_set, Ha. destruct (Z.eqb_spec (LH h l) key); [contradiction|reflexivity].
      * discriminate.
      * intros _. destruct news as [|x xs].
        -- rewrite (H4 eq_refl). unfold mem. rewrite gss. reflexivity.
        -- apply H5. discriminate.
Qed.
