(* C13: the number of accepted line events - hence, by hits_exact, every reported hit count of
   a quiescent history - is the sum of what each thread executed and does not depend on how
   the threads' operations interleave. *)
From Coq Require Import List ZArith Bool Lia.
From LP Require Import Trace.ZMap Trace.Concrete Trace.Abstract Trace.AbstractFacts Trace.RefineLemmas.
Import ListNotations.
Open Scope Z_scope.

Definition is_G (o : op) : bool := match o with G _ _ => true | _ => false end.

(* what one thread contributes, computed from that thread's own operations only *)
Fixpoint count_thread (codes : list code) (regs : list Z) (t : Z) (en : bool) (ops : list op) (c l : Z) : Z :=
  match ops with
  | [] => 0
  | o :: rest =>
      match o with
      | E t' => count_thread codes regs t (if Z.eqb t' t then true else en) rest c l
      | D t' => count_thread codes regs t (if Z.eqb t' t then false else en) rest c l
      | L t' c' _ _ l' =>
          (if Z.eqb t' t && en && inb c' regs && inb l' (c_lines (nth_code codes c')) && Z.eqb c' c && Z.eqb l' l then 1 else 0)
          + count_thread codes regs t en rest c l
      | _ => count_thread codes regs t en rest c l
      end
  end.

Definition of_thread (t : Z) (o : op) : bool :=
  match op_thread o with Some t' => Z.eqb t' t | None => false end.

(* a thread's contribution only looks at its own operations *)
Lemma count_thread_filter codes regs t ops : forall en c l,
  count_thread codes regs t en ops c l = count_thread codes regs t en (filter (of_thread t) ops) c l.
Proof.
  induction ops as [|o ops IH]; intros en c l; [reflexivity|].
  destruct o; cbn [count_thread filter of_thread op_thread]; try apply IH.
  - destruct (Z.eqb t0 t) eqn:Et; cbn [count_thread]; [rewrite Et|]; apply IH.
  - destruct (Z.eqb t0 t) eqn:Et; cbn [count_thread]; [rewrite Et|]; apply IH.
  - destruct (Z.eqb t0 t) eqn:Et; cbn [count_thread andb]; [rewrite Et; cbn [andb]; rewrite IH; reflexivity|apply IH].
  - destruct (Z.eqb t0 t) eqn:Et; cbn [count_thread]; apply IH.
Qed.

Definition tsum (f : Z -> Z) (threads : list Z) : Z := fold_right (fun t acc => f t + acc) 0 threads.

Lemma tsum_ext f g threads : (forall t, In t threads -> f t = g t) -> tsum f threads = tsum g threads.
Proof.
  induction threads as [|a ts IH]; intros H; cbn [tsum fold_right]; [reflexivity|].
  unfold tsum in IH. rewrite IH by (intros t Ht; apply H; right; exact Ht). rewrite (H a) by (left; reflexivity). reflexivity.
Qed.

Lemma tsum_zero f threads : (forall t, In t threads -> f t = 0) -> tsum f threads = 0.
Proof.
  induction threads as [|a ts IH]; intros H; cbn [tsum fold_right]; [reflexivity|].
  unfold tsum in IH. rewrite IH by (intros t Ht; apply H; right; exact Ht). rewrite (H a) by (left; reflexivity). reflexivity.
Qed.

Lemma tsum_single f threads t v :
  NoDup threads -> In t threads -> (forall t', t' <> t -> f t' = 0) -> f t = v -> tsum f threads = v.
Proof.
  intros Hnd Hin Hz Hv. induction threads as [|a ts IH]; [contradiction|]. inversion Hnd as [|? ? Hna Hnd']; subst.
  cbn [tsum fold_right]. destruct Hin as [Ha|Hin].
  - subst a. pose proof (tsum_zero f ts) as E. unfold tsum in E. rewrite E; [lia|].
    intros t' Ht'. apply Hz. intros ->. contradiction.
  - assert (Hne : a <> t) by (intros ->; contradiction). rewrite (Hz a Hne).
    unfold tsum in IH. rewrite (IH Hnd' Hin). lia.
Qed.

Lemma tsum_plus f g threads : tsum (fun t => f t + g t) threads = tsum f threads + tsum g threads.
Proof. induction threads as [|a ts IH]; cbn [tsum fold_right]; [reflexivity|]. unfold tsum in IH. rewrite IH. lia. Qed.

Lemma inb_cons x a l : inb x (a :: l) = Z.eqb x a || inb x l.
Proof. reflexivity. Qed.

Lemma inb_filter_ne x t l : inb x (filter (fun y => negb (Z.eqb y t)) l) = negb (Z.eqb x t) && inb x l.
Proof.
  induction l as [|a l IH]; cbn [filter]; [rewrite andb_false_r; reflexivity|].
  destruct (Z.eqb_spec a t) as [->|Hne]; cbn [negb].
  - rewrite IH, inb_cons. destruct (Z.eqb_spec x t); cbn [negb andb orb]; reflexivity.
  - rewrite !inb_cons, IH. destruct (Z.eqb_spec x a) as [->|]; cbn [orb].
    + destruct (Z.eqb_spec a t); [contradiction|]. reflexivity.
    + reflexivity.
Qed.

(* the global count is the sum of the per-thread counts, for histories without registrations *)
Theorem count_is_sum_of_threads codes tick threads c l : NoDup threads ->
  forall ops st, threads_cover threads ops -> forallb (fun o => negb (is_G o)) ops = true ->
    count_lines codes tick st ops c l
    = tsum (fun t => count_thread codes (areg st) t (inb t (aen st)) ops c l) threads.
Proof.
  intros Hnd. induction ops as [|o ops IH]; intros st Hcov Hng.
  - cbn [count_lines count_thread]. clear. induction threads as [|a ts IHt]; [reflexivity|]. cbn [tsum fold_right]. unfold tsum in IHt. rewrite <- IHt. reflexivity.
  - cbn [forallb] in Hng. apply andb_prop in Hng as [Hg Hng].
    assert (Hcov' : threads_cover threads ops) by (intros o' t' Hi; apply Hcov; right; exact Hi).
    cbn [count_lines]. rewrite (IH (a_step codes tick st o) Hcov' Hng).
    destruct o; cbn [is_G negb] in Hg; try discriminate; cbn [a_step count_thread areg aen].
    + (* E *) rewrite Z.add_0_l. apply tsum_ext. intros t' _. rewrite inb_cons. rewrite (Z.eqb_sym t' t). destruct (Z.eqb t t'); reflexivity.
    + (* D *) rewrite Z.add_0_l. apply tsum_ext. intros t' _. rewrite inb_filter_ne. rewrite (Z.eqb_sym t' t).
      destruct (Z.eqb t t'); cbn [negb andb]; reflexivity.
    + (* L *)
      assert (Hreg : areg (a_event codes tick st t c0 l0 true) = areg st /\ aen (a_event codes tick st t c0 l0 true) = aen st).
      { unfold a_event. destruct (negb _); [split; reflexivity|]. destruct (ap st t c0) as [[ol ot]|]; split; reflexivity. }
      destruct Hreg as [-> ->].
      rewrite (tsum_plus (fun t' => if Z.eqb t t' && inb t' (aen st) && inb c0 (areg st) && inb l0 (c_lines (nth_code codes c0)) && Z.eqb c0 c && Z.eqb l0 l then 1 else 0)).
      f_equal.
      assert (Hin : In t threads) by (apply (Hcov (L t c0 f s l0)); [left; reflexivity|reflexivity]).
      symmetry. apply (tsum_single _ threads t); [exact Hnd|exact Hin| |].
      * intros t' Hne. destruct (Z.eqb_spec t t'); [congruence|]. reflexivity.
      * rewrite Z.eqb_refl. unfold a_accept. cbn [andb]. reflexivity.
    + (* R *)
      assert (Hreg : areg (a_event codes tick st t c0 l0 false) = areg st /\ aen (a_event codes tick st t c0 l0 false) = aen st).
      { unfold a_event. destruct (negb _); [split; reflexivity|]. destruct (ap st t c0) as [[ol ot]|]; split; reflexivity. }
      destruct Hreg as [-> ->]. rewrite Z.add_0_l. reflexivity.
    + rewrite Z.add_0_l. reflexivity.
    + rewrite Z.add_0_l. reflexivity.
Qed.

Definition same_projections (a b : list op) : Prop := forall t, filter (of_thread t) a = filter (of_thread t) b.

(* any two interleavings of the same per-thread operation sequences execute the same lines *)
Theorem interleave_invariant codes tick threads c l body body' st :
  NoDup threads -> threads_cover threads body -> threads_cover threads body' ->
  forallb (fun o => negb (is_G o)) body = true -> forallb (fun o => negb (is_G o)) body' = true ->
  same_projections body body' ->
  count_lines codes tick st body c l = count_lines codes tick st body' c l.
Proof.
  intros Hnd Hc1 Hc2 Hg1 Hg2 Hp.
  rewrite (count_is_sum_of_threads codes tick threads c l Hnd body st Hc1 Hg1).
  rewrite (count_is_sum_of_threads codes tick threads c l Hnd body' st Hc2 Hg2).
  apply tsum_ext. intros t _. rewrite count_thread_filter, (count_thread_filter codes (areg st) t body'), (Hp t). reflexivity.
Qed.

(* a thread that never enables the profiler contributes nothing *)
Theorem unenabled_thread_silent codes regs t ops c l :
  (forall o, In o ops -> o <> E t) -> count_thread codes regs t false ops c l = 0.
Proof.
  induction ops as [|o ops IH]; intros H; [reflexivity|].
  assert (H' : forall o', In o' ops -> o' <> E t) by (intros o' Ho'; apply H; right; exact Ho').
  destruct o; cbn [count_thread]; try (apply IH; exact H').
  - destruct (Z.eqb_spec t0 t) as [->|]; [exfalso; apply (H (E t)); [left; reflexivity|reflexivity]|apply IH; exact H'].
  - destruct (Z.eqb t0 t); apply IH; exact H'.
  - rewrite andb_false_r. cbn [andb]. rewrite IH by exact H'. reflexivity.
Qed.
