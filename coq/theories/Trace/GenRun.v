(* The whole step function written with the generated core (Gen/TraceCore.v), and its equality with the hand
   model's step/run: every theorem about `run` is a theorem about the machine regenerated from the source. *)
From Coq Require Import List ZArith Bool.
From LP Require Import Trace.ZMap Trace.Concrete Trace.Machine Gen.TraceCore Trace.GenTie Trace.GenTieStats.
Import ListNotations.
Open Scope Z_scope.

Definition gen_add_function (codes : list code) (st : cstate) (cb ca : Z) : cstate :=
  let b := nth_code codes cb in
  let a := nth_code codes ca in
  let '(d', k') := gen_pad_step (dupes st) (c_b b) (c_k b) in
  let ok := Z.eqb (c_b a) (c_b b) && Z.eqb (c_k a) k' && Z.eqb (c_lbl a) (c_lbl b) in
  let '(cm, hm) := gen_reg_lines (c_hash a) ca (c_lines a) (cmap st) (chm st) in
  mkcs cm hm d' (last st) (enabled st) (now st) (snaps st) (pad_ok st && ok).

Definition gen_step (codes : list code) (tick : Z) (st : cstate) (o : op) : cstate :=
  match o with
  | G cb ca => gen_add_function codes st cb ca
  | E t => gen_enable st t
  | D t => gen_disable st t
  | L t c f s l => if is_enabled st t then gen_callback tick st t (c_hash (nth_code codes c)) l true else st
  | R t c f s l => if is_enabled st t then gen_callback tick st t (c_hash (nth_code codes c)) l false else st
  | A d => with_now st (now st + d)
  | S => mkcs (cmap st) (chm st) (dupes st) (last st) (enabled st) (now st) (gen_get_stats codes st :: snaps st) (pad_ok st)
  end.

Definition gen_run (codes : list code) (tick start : Z) (ops : list op) : cstate :=
  fold_left (gen_step codes tick) ops (init_state start).

Theorem gen_step_eq codes tick st o : gen_step codes tick st o = step codes tick st o.
Proof.
  destruct o; cbn [gen_step step].
  - unfold gen_add_function, add_function. rewrite gen_pad_step_eq, gen_reg_lines_eq. reflexivity.
  - reflexivity.
  - reflexivity.
  - rewrite gen_callback_eq. reflexivity.
  - rewrite gen_callback_eq. reflexivity.
  - reflexivity.
  - rewrite gen_get_stats_eq. reflexivity.
Qed.

Theorem gen_run_eq codes tick start ops : gen_run codes tick start ops = run codes tick start ops.
Proof.
  unfold gen_run, run. generalize (init_state start). induction ops as [|o ops IH]; intros st; cbn [fold_left]; [reflexivity|].
  rewrite gen_step_eq. apply IH.
Qed.
