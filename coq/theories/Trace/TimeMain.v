(* C02 exactness in final form *)
From Coq Require Import List ZArith Bool Lia.
From LP Require Import Trace.ZMap Trace.Concrete Trace.Abstract Trace.Main Trace.TimeExact Trace.Witness.
Import ListNotations.
Open Scope Z_scope.

Theorem time_exact codes tick ops c l :
  no_collision codes ops = true -> nonreentrant_hist codes tick ops = true ->
  reported_time (run codes tick 0 ops) c l = g_time (g_run codes tick 0 ops) c l.
Proof.
  intros Hn Hr. destruct (reported_is_abstract codes tick ops c l Hn) as [_ ->].
  pose proof (time_exact_abstract codes tick ops (a_init 0) (g_init 0) (sim_init 0) (nonreentrant_hist_sound codes tick ops Hr)) as I.
  apply (s_time _ _ I).
Qed.

Example gen_time_exact :
  no_collision gen_codes gen_ops = true /\ nonreentrant_hist gen_codes 0 gen_ops = true
  /\ reported_time (run gen_codes 0 0 gen_ops) 0 2 = 12
  /\ reported_time (run gen_codes 0 0 gen_ops) 0 3 = 24
  /\ g_time (g_run gen_codes 0 0 gen_ops) 0 2 = 12
  /\ nonreentrant_hist rec_codes 0 rec_ops = false.
Proof. vm_compute. repeat split. Qed.

Theorem reported_time_is_abstract codes tick ops c l :
  no_collision codes ops = true ->
  reported_time (run codes tick 0 ops) c l = atm (a_run codes tick 0 ops) c l.
Proof. intros H. exact (proj2 (reported_is_abstract codes tick ops c l H)). Qed.
