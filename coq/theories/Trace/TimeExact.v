(* C02, exactness: when no thread ever has two activations of one code object with a line in flight
   (the executable hypothesis the harness calls NonReentrant), the time the profiler accumulates for a
   line is exactly the per-ACTIVATION time of the property text: the sum, over the starts of that line,
   of (clock at the next event of the same activation segment) - (clock when the line started). *)
From Coq Require Import List ZArith Bool Lia.
From LP Require Import Trace.ZMap Trace.Concrete Trace.Abstract.
Import ListNotations.
Open Scope Z_scope.

(* the per-activation reference: one pending slot per (frame f, segment s) *)
Record gstate := mkgs {
  g_time : Z -> Z -> Z;                               (* code -> line -> time *)
  g_pend : Z -> Z -> option (Z * Z * Z * Z);          (* f -> s -> (thread, code, line, start) *)
  g_reg : list Z; g_en : list Z; g_now : Z
}.
Definition g_init (start : Z) : gstate := mkgs (fun _ _ => 0) (fun _ _ => None) [] [] start.

Definition g_accept (codes : list code) (g : gstate) (t c l : Z) : bool :=
  inb t (g_en g) && inb c (g_reg g) && inb l (c_lines (nth_code codes c)).

Definition updg (p : Z -> Z -> option (Z * Z * Z * Z)) (f s : Z) (v : option (Z * Z * Z * Z)) :=
  fun x y => if Z.eqb x f && Z.eqb y s then v else p x y.

Definition g_event (codes : list code) (tick : Z) (g : gstate) (t c f s l : Z) (is_line : bool) : gstate :=
  if negb (g_accept codes g t c l) then g else
  let time1 := g_now g in
  let now1 := g_now g + tick in
  let tm := match g_pend g f s with
            | Some (_, pc, pl, t2) => upd2 (g_time g) pc pl (g_time g pc pl + (time1 - t2))
            | None => g_time g
            end in
  if is_line then mkgs tm (updg (g_pend g) f s (Some (t, c, l, now1))) (g_reg g) (g_en g) (now1 + tick)
  else mkgs tm (updg (g_pend g) f s None) (g_reg g) (g_en g) now1.

Definition g_step (codes : list code) (tick : Z) (g : gstate) (o : op) : gstate :=
  match o with
  | G cb ca => if inb ca (g_reg g) || list_eqb Z.eqb (c_lines (nth_code codes ca)) [] then g
               else mkgs (g_time g) (g_pend g) (ca :: g_reg g) (g_en g) (g_now g)
  | E t => mkgs (g_time g) (g_pend g) (g_reg g) (t :: g_en g) (g_now g)
  | D t => mkgs (g_time g)
                (fun x y => match g_pend g x y with
                            | Some (t', c, l, t2) => if Z.eqb t' t then None else Some (t', c, l, t2)
                            | None => None end)
                (g_reg g) (filter (fun x => negb (Z.eqb x t)) (g_en g)) (g_now g)
  | L t c f s l => g_event codes tick g t c f s l true
  | R t c f s l => g_event codes tick g t c f s l false
  | A d => mkgs (g_time g) (g_pend g) (g_reg g) (g_en g) (g_now g + d)
  | S => g
  end.

Definition g_run (codes : list code) (tick start : Z) (ops : list op) : gstate :=
  fold_left (g_step codes tick) ops (g_init start).

(* NonReentrant, along the reference run: at every accepted event of segment (f, s) in thread t, code c,
   (a) a pending line of that segment belongs to (t, c) - a segment does not change thread or code -
   (b) no OTHER segment has a line of (t, c) in flight *)
Definition ok_event (codes : list code) (g : gstate) (o : op) : Prop :=
  match o with
  | L t c f s l | R t c f s l =>
      g_accept codes g t c l = true ->
      (forall t' c' l' t2, g_pend g f s = Some (t', c', l', t2) -> t' = t /\ c' = c)
      /\ (forall f' s' l' t2, g_pend g f' s' = Some (t, c, l', t2) -> f' = f /\ s' = s)
  | _ => True
  end.

Fixpoint nonreentrant (codes : list code) (tick : Z) (g : gstate) (ops : list op) : Prop :=
  match ops with
  | [] => True
  | o :: rest => ok_event codes g o /\ nonreentrant codes tick (g_step codes tick g o) rest
  end.

(* ---- simulation ------------------------------------------------------------------------------ *)
Record Sim (a : astate) (g : gstate) : Prop := mkSim {
  s_reg : areg a = g_reg g;
  s_en : aen a = g_en g;
  s_now : anow a = g_now g;
  s_time : forall c l, atm a c l = g_time g c l;
  s_a : forall f s t c l t2, g_pend g f s = Some (t, c, l, t2) -> ap a t c = Some (l, t2);
  s_b : forall t c l t2, ap a t c = Some (l, t2) -> exists f s, g_pend g f s = Some (t, c, l, t2)
}.

Lemma sim_init start : Sim (a_init start) (g_init start).
Proof. constructor; cbn; try reflexivity; intros; discriminate. Qed.

Lemma sim_event codes tick a g t c f s l (isl : bool) :
  Sim a g -> ok_event codes g (if isl then L t c f s l else R t c f s l) ->
  Sim (a_event codes tick a t c l isl) (g_event codes tick g t c f s l isl).
Proof.
  intros I Hok. unfold a_event, g_event.
  assert (Hacc : a_accept codes a t c l = g_accept codes g t c l)
    by (unfold a_accept, g_accept; rewrite (s_reg a g I), (s_en a g I); reflexivity).
  rewrite Hacc. destruct (g_accept codes g t c l) eqn:Ea; cbn [negb]; [|exact I].
  assert (Hok' : (forall t' c' l' t2, g_pend g f s = Some (t', c', l', t2) -> t' = t /\ c' = c)
                 /\ (forall f' s' l' t2, g_pend g f' s' = Some (t, c, l', t2) -> f' = f /\ s' = s))
    by (destruct isl; apply Hok; exact Ea).
  destruct Hok' as [Hown Huniq].
  (* the two machines close the same pending line *)
  assert (Hclose : match g_pend g f s with
                   | Some (_, pc, pl, t2) => ap a t c = Some (pl, t2) /\ pc = c
                   | None => ap a t c = None end).
  { destruct (g_pend g f s) as [[[[t' c'] l'] t2]|] eqn:Eg.
    - destruct (Hown t' c' l' t2 eq_refl) as [-> ->]. split; [apply (s_a a g I f s t c l' t2 Eg)|reflexivity].
    - destruct (ap a t c) as [[pl pt]|] eqn:Ep; [|reflexivity]. exfalso.
      destruct (s_b a g I t c pl pt Ep) as [f' [s' Hp]]. destruct (Huniq f' s' pl pt Hp) as [-> ->]. congruence. }
  assert (Htime : forall c0 l0,
            (let '(h1, t1) := match ap a t c with
                              | Some (ol, ot) => (upd2 (ah a) c ol (ah a c ol + 1), upd2 (atm a) c ol (atm a c ol + (anow a - ot)))
                              | None => (ah a, atm a) end in t1) c0 l0
            = (match g_pend g f s with
               | Some (_, pc, pl, t2) => upd2 (g_time g) pc pl (g_time g pc pl + (g_now g - t2))
               | None => g_time g end) c0 l0).
  { intros c0 l0. destruct (g_pend g f s) as [[[[t' c'] l'] t2]|].
    - destruct Hclose as [-> ->]. unfold upd2. rewrite !(s_time a g I), (s_now a g I). reflexivity.
    - rewrite Hclose. apply (s_time a g I). }
  destruct (match ap a t c with
            | Some (ol, ot) => (upd2 (ah a) c ol (ah a c ol + 1), upd2 (atm a) c ol (atm a c ol + (anow a - ot)))
            | None => (ah a, atm a) end) as [h1 t1] eqn:E1.
  cbn zeta in Htime.
  (* pendings of other segments are untouched and are never for (t, c) *)
  assert (Hother : forall f' s' t' c' l' t2, (Z.eqb f' f && Z.eqb s' s = false) ->
                     g_pend g f' s' = Some (t', c', l', t2) -> (Z.eqb t' t && Z.eqb c' c = false)).
  { intros f' s' t' c' l' t2 Hne Hp. destruct (Z.eqb_spec t' t) as [->|]; [|reflexivity].
    destruct (Z.eqb_spec c' c) as [->|]; [|reflexivity]. exfalso.
    destruct (Huniq f' s' l' t2 Hp) as [-> ->]. rewrite !Z.eqb_refl in Hne. discriminate. }
  destruct isl; constructor; cbn [areg aen anow atm ap g_reg g_en g_now g_time g_pend];
    try (apply (s_reg a g I)); try (apply (s_en a g I)); try (rewrite (s_now a g I); reflexivity); try exact Htime.
  - intros f' s' t' c' l' t2. unfold updg, updp. destruct (Z.eqb f' f && Z.eqb s' s) eqn:Ef.
    + intros H; injection H as <- <- <- <-. rewrite !Z.eqb_refl. cbn. rewrite (s_now a g I). reflexivity.
    + intros Hp. rewrite (Hother f' s' t' c' l' t2 Ef Hp). apply (s_a a g I f' s' t' c' l' t2 Hp).
  - intros t' c' l' t2. unfold updg, updp. destruct (Z.eqb t' t && Z.eqb c' c) eqn:Et.
    + apply andb_prop in Et as [E1' E2']. apply Z.eqb_eq in E1', E2'. subst t' c'.
      intros H; injection H as <- <-. exists f, s. rewrite !Z.eqb_refl. cbn. rewrite (s_now a g I). reflexivity.
    + intros Hp. destruct (s_b a g I t' c' l' t2 Hp) as [f' [s' Hg]]. exists f', s'.
      destruct (Z.eqb f' f && Z.eqb s' s) eqn:Ef; [|exact Hg]. exfalso.
      apply andb_prop in Ef as [E1' E2']. apply Z.eqb_eq in E1', E2'. subst f' s'.
      destruct (Hown t' c' l' t2 Hg) as [-> ->]. rewrite !Z.eqb_refl in Et. discriminate.
  - intros f' s' t' c' l' t2. unfold updg, updp. destruct (Z.eqb f' f && Z.eqb s' s) eqn:Ef; [discriminate|].
    intros Hp. rewrite (Hother f' s' t' c' l' t2 Ef Hp). apply (s_a a g I f' s' t' c' l' t2 Hp).
  - intros t' c' l' t2. unfold updg, updp. destruct (Z.eqb t' t && Z.eqb c' c) eqn:Et; [discriminate|].
    intros Hp. destruct (s_b a g I t' c' l' t2 Hp) as [f' [s' Hg]]. exists f', s'.
    destruct (Z.eqb f' f && Z.eqb s' s) eqn:Ef; [|exact Hg]. exfalso.
    apply andb_prop in Ef as [E1' E2']. apply Z.eqb_eq in E1', E2'. subst f' s'.
    destruct (Hown t' c' l' t2 Hg) as [-> ->]. rewrite !Z.eqb_refl in Et. discriminate.
Qed.

Lemma sim_step codes tick a g o :
  Sim a g -> ok_event codes g o -> Sim (a_step codes tick a o) (g_step codes tick g o).
Proof.
  intros I Hok. destruct o; cbn [a_step g_step].
  - rewrite (s_reg a g I). destruct (inb ca (g_reg g) || _); [exact I|].
    destruct I; constructor; cbn; auto; congruence.
  - destruct I; constructor; cbn; auto; congruence.
  - constructor; cbn [areg aen anow atm ap g_reg g_en g_now g_time g_pend];
      try (apply (s_reg a g I)); try (apply (s_now a g I)); try (apply (s_time a g I)).
    + rewrite (s_en a g I). reflexivity.
    + intros f s t' c l t2. destruct (g_pend g f s) as [[[[t0 c0] l0] t20]|] eqn:Eg; [|discriminate].
      destruct (Z.eqb_spec t0 t) as [->|Hne]; [discriminate|]. intros H; injection H as <- <- <- <-.
      destruct (Z.eqb_spec t0 t); [contradiction|]. apply (s_a a g I f s t0 c0 l0 t20 Eg).
    + intros t' c l t2. destruct (Z.eqb_spec t' t) as [->|Hne]; [discriminate|]. intros Hp.
      destruct (s_b a g I t' c l t2 Hp) as [f [s Hg]]. exists f, s. rewrite Hg.
      destruct (Z.eqb_spec t' t); [contradiction|reflexivity].
  - apply (sim_event codes tick a g t c f s l true I Hok).
  - apply (sim_event codes tick a g t c f s l false I Hok).
  - destruct I; constructor; cbn; auto; congruence.
  - exact I.
Qed.

Theorem time_exact_abstract codes tick ops : forall a g,
  Sim a g -> nonreentrant codes tick g ops ->
  Sim (fold_left (a_step codes tick) ops a) (fold_left (g_step codes tick) ops g).
Proof.
  induction ops as [|o ops IH]; intros a g I Hn; cbn [fold_left]; [exact I|].
  destruct Hn as [Hok Hrest]. apply IH; [apply sim_step; assumption|exact Hrest].
Qed.

(* ---- an executable form of the hypothesis (what the harness evaluates; used for non-vacuity) -------- *)
Definition segs_of (ops : list op) : list (Z * Z) :=
  flat_map (fun o => match o with L _ _ f s _ | R _ _ f s _ => [(f, s)] | _ => [] end) ops.

Definition ok_event_b (codes : list code) (g : gstate) (segs : list (Z * Z)) (o : op) : bool :=
  match o with
  | L t c f s l | R t c f s l =>
      if g_accept codes g t c l then
        match g_pend g f s with Some (t', c', _, _) => Z.eqb t' t && Z.eqb c' c | None => true end
        && forallb (fun fs => match g_pend g (fst fs) (snd fs) with
                              | Some (t', c', _, _) => negb (Z.eqb t' t && Z.eqb c' c) || (Z.eqb (fst fs) f && Z.eqb (snd fs) s)
                              | None => true end) segs
      else true
  | _ => true
  end.

Fixpoint nonreentrant_b (codes : list code) (tick : Z) (g : gstate) (segs : list (Z * Z)) (ops : list op) : bool :=
  match ops with
  | [] => true
  | o :: rest => ok_event_b codes g segs o && nonreentrant_b codes tick (g_step codes tick g o) segs rest
  end.

Definition pend_within (g : gstate) (segs : list (Z * Z)) : Prop :=
  forall f s v, g_pend g f s = Some v -> In (f, s) segs.

Lemma ok_event_b_sound codes g segs o : pend_within g segs -> ok_event_b codes g segs o = true -> ok_event codes g o.
Proof.
  intros Hw H. destruct o; cbn [ok_event_b ok_event] in *; try exact I.
  - intros Ha. rewrite Ha in H. apply andb_prop in H as [H1 H2]. split.
    + intros t' c' l' t2 Hp. rewrite Hp in H1. apply andb_prop in H1 as [A B]. split; apply Z.eqb_eq; assumption.
    + intros f' s' l' t2 Hp. rewrite forallb_forall in H2. specialize (H2 (f', s') (Hw f' s' _ Hp)). cbn [fst snd] in H2.
      rewrite Hp, !Z.eqb_refl in H2. cbn in H2. apply andb_prop in H2 as [A B]. split; apply Z.eqb_eq; assumption.
  - intros Ha. rewrite Ha in H. apply andb_prop in H as [H1 H2]. split.
    + intros t' c' l' t2 Hp. rewrite Hp in H1. apply andb_prop in H1 as [A B]. split; apply Z.eqb_eq; assumption.
    + intros f' s' l' t2 Hp. rewrite forallb_forall in H2. specialize (H2 (f', s') (Hw f' s' _ Hp)). cbn [fst snd] in H2.
      rewrite Hp, !Z.eqb_refl in H2. cbn in H2. apply andb_prop in H2 as [A B]. split; apply Z.eqb_eq; assumption.
Qed.

Lemma g_event_within codes tick g t c f s l isl segs :
  pend_within g segs -> In (f, s) segs -> pend_within (g_event codes tick g t c f s l isl) segs.
Proof.
  intros Hw Hin. unfold g_event. destruct (negb _); [exact Hw|].
  destruct isl; intros f' s' v; cbn [g_pend]; unfold updg;
    (destruct (Z.eqb_spec f' f) as [->|]; [destruct (Z.eqb_spec s' s) as [->|]; cbn [andb]; [intros _; exact Hin|apply Hw]|cbn [andb]; apply Hw]).
Qed.

Lemma g_step_within codes tick g o segs :
  pend_within g segs -> (forall fs, In fs (segs_of [o]) -> In fs segs) -> pend_within (g_step codes tick g o) segs.
Proof.
  intros Hw Hs. destruct o; cbn [g_step]; try exact Hw.
  - destruct (inb ca (g_reg g) || _); exact Hw.
  - intros f s v. cbn [g_pend]. destruct (g_pend g f s) as [[[[t0 c0] l0] t20]|] eqn:Eg; [|discriminate].
    intros _. apply (Hw f s _ Eg).
  - apply g_event_within; [exact Hw|apply Hs; left; reflexivity].
  - apply g_event_within; [exact Hw|apply Hs; left; reflexivity].
Qed.

Theorem nonreentrant_b_sound codes tick segs ops : forall g,
  pend_within g segs -> (forall fs, In fs (segs_of ops) -> In fs segs) ->
  nonreentrant_b codes tick g segs ops = true -> nonreentrant codes tick g ops.
Proof.
  induction ops as [|o ops IH]; intros g Hw Hs H; cbn [nonreentrant_b nonreentrant] in *; [exact I|].
  apply andb_prop in H as [H1 H2]. split; [apply (ok_event_b_sound codes g segs o Hw H1)|].
  apply IH; [apply g_step_within; [exact Hw|]|intros fs Hf|exact H2].
  - intros fs Hf. apply Hs. cbn [segs_of flat_map] in *. apply in_or_app. left. rewrite app_nil_r in Hf. exact Hf.
  - apply Hs. cbn [segs_of flat_map]. apply in_or_app. right. exact Hf.
Qed.

Definition nonreentrant_hist (codes : list code) (tick : Z) (ops : list op) : bool :=
  nonreentrant_b codes tick (g_init 0) (segs_of ops) ops.

Corollary nonreentrant_hist_sound codes tick ops :
  nonreentrant_hist codes tick ops = true -> nonreentrant codes tick (g_init 0) ops.
Proof.
  intros H. apply (nonreentrant_b_sound codes tick (segs_of ops) ops (g_init 0)); [intros f s v; discriminate|auto|exact H].
Qed.
