(* The primitives the generated tracer core (Gen/TraceCore.v) is written in: C++ unordered_map operations on the
   profiler's two tables and the clock, over the state record of Trace/Concrete.v.
   operator[] creates a default entry when the key is missing (lt_touch); .count does not; a `cdef
   unordered_map x = m[k]` is a value copy (the translator evaluates it on the state it was taken from). *)
From Coq Require Import List ZArith Bool.
From LP Require Import Trace.ZMap Trace.Concrete.
Import ListNotations.
Open Scope Z_scope.

Definition with_cmap (st : cstate) (cm : zmap (zmap (Z * Z))) : cstate :=
  mkcs cm (chm st) (dupes st) (last st) (enabled st) (now st) (snaps st) (pad_ok st).
Definition with_last (st : cstate) (lt : zmap (zmap (Z * Z))) : cstate :=
  mkcs (cmap st) (chm st) (dupes st) lt (enabled st) (now st) (snaps st) (pad_ok st).
Definition with_now (st : cstate) (n : Z) : cstate :=
  mkcs (cmap st) (chm st) (dupes st) (last st) (enabled st) n (snaps st) (pad_ok st).
Definition with_enabled (st : cstate) (en : list Z) : cstate :=
  mkcs (cmap st) (chm st) (dupes st) (last st) en (now st) (snaps st) (pad_ok st).

(* hpTimer(): the value read is the current clock; reading costs `tick` *)
Definition tick_clock (tick : Z) (st : cstate) : cstate := with_now st (now st + tick).

(* _c_code_map *)
Definition cm_count (st : cstate) (key : Z) : bool := mem (cmap st) key.
Definition cell_count (st : cstate) (ch key : Z) : bool := mem (getd [] (cmap st) ch) key.
Definition cell_set (st : cstate) (ch key : Z) (v : Z * Z) : cstate :=
  with_cmap st (set (cmap st) ch (set (getd [] (cmap st) ch) key v)).
Definition cell_add_hits (st : cstate) (ch key n : Z) : cstate :=
  let '(nh, tot) := getd (0, 0) (getd [] (cmap st) ch) key in cell_set st ch key (nh + n, tot).
Definition cell_add_time (st : cstate) (ch key d : Z) : cstate :=
  let '(nh, tot) := getd (0, 0) (getd [] (cmap st) ch) key in cell_set st ch key (nh, tot + d).

(* _c_last_time *)
Definition lt_touch (st : cstate) (ident : Z) : cstate :=
  with_last st (set (last st) ident (getd [] (last st) ident)).
Definition lt_count (st : cstate) (ident h : Z) : bool := mem (getd [] (last st) ident) h.
Definition lt_get (st : cstate) (ident h : Z) : Z * Z := getd (0, 0) (getd [] (last st) ident) h.
Definition lt_set (st : cstate) (ident h : Z) (v : Z * Z) : cstate :=
  with_last st (set (last st) ident (set (getd [] (last st) ident) h v)).
Definition lt_erase (st : cstate) (ident h : Z) : cstate :=
  with_last st (set (last st) ident (remove (getd [] (last st) ident) h)).
Definition lt_clear (st : cstate) (ident : Z) : cstate := with_last st (set (last st) ident []).
