(* The generated get_stats (Gen/TraceCore.v: per-label dictionaries that accumulate over the code objects in
   code_hash_map order, stats[label] overwritten each time) equals the hand model's get_stats (Trace/Concrete.v:
   every label is computed from all line hashes registered under it).  Both are label-sorted lists; the value
   that survives for a label is the one written at its last code object, when the dictionaries are complete. *)
From Coq Require Import List ZArith Bool Lia.
From LP Require Import Trace.ZMap Trace.Concrete Trace.Machine Gen.TraceCore Trace.GenTie.
Import ListNotations.
Open Scope Z_scope.

Definition lblof (codes : list code) (ch : Z * list Z) : Z := c_lbl (nth_code codes (fst ch)).
Definition sortmap (m : zmap (Z * Z)) : list (Z * Z * Z) :=
  sort_entries (map (fun e => (fst e, fst (snd e), snd (snd e))) m).

(* ---- label-sorted snapshots --------------------------------------------------------------- *)
Fixpoint lsorted (s : snapshot) : Prop :=
  match s with
  | [] => True
  | (k, _) :: t => (forall k' v', In (k', v') t -> k < k') /\ lsorted t
  end.

Lemma insert_lbl_in' e l x : In x (insert_lbl e l) -> x = e \/ In x l.
Proof.
  induction l as [|y t IH]; cbn [insert_lbl In]; [intuition|].
  destruct (fst e <? fst y); [cbn [In]; intuition|].
  destruct (fst e =? fst y); cbn [In]; intuition.
Qed.

Lemma insert_lbl_sorted k v s : lsorted s -> lsorted (insert_lbl (k, v) s).
Proof.
  induction s as [|[k0 v0] t IH]; cbn [insert_lbl lsorted fst]; [intros _; split; [intros ? ? []|exact I]|].
  intros [Hlt Ht]. destruct (k <? k0) eqn:E1.
  - apply Z.ltb_lt in E1. cbn [lsorted]. split; [|split; assumption].
    intros k' v' [Heq|Hin]; [inversion Heq; subst; exact E1|specialize (Hlt k' v' Hin); lia].
  - apply Z.ltb_ge in E1. destruct (k =? k0) eqn:E2.
    + apply Z.eqb_eq in E2. subst k0. cbn [lsorted]. split; assumption.
    + apply Z.eqb_neq in E2. cbn [lsorted]. split; [|apply IH; exact Ht].
      intros k' v' Hin. apply insert_lbl_in' in Hin as [Heq|Hin]; [inversion Heq; subst; lia|apply (Hlt k' v' Hin)].
Qed.

Lemma get_insert_lbl k v (s : snapshot) k' : get (insert_lbl (k, v) s) k' = if k =? k' then Some v else get s k'.
Proof.
  induction s as [|[k0 v0] t IH]; cbn [insert_lbl get fst]; [reflexivity|].
  destruct (k <? k0) eqn:E1.
  - cbn [get]. reflexivity.
  - destruct (k =? k0) eqn:E2.
    + apply Z.eqb_eq in E2. subst k0. cbn [get]. destruct (k =? k'); reflexivity.
    + cbn [get]. destruct (k0 =? k') eqn:E3.
      * apply Z.eqb_eq in E3. subst k'. rewrite E2. reflexivity.
      * exact IH.
Qed.

Lemma get_none_lt {A} (t : zmap A) k : (forall k' v', In (k', v') t -> k < k') -> get t k = None.
Proof.
  induction t as [|[k0 v0] t IH]; cbn [get]; [reflexivity|]. intros H.
  destruct (k0 =? k) eqn:E; [apply Z.eqb_eq in E; specialize (H k0 v0 (or_introl eq_refl)); lia|].
  apply IH. intros k' v' Hin. apply (H k' v'). right. exact Hin.
Qed.

Lemma lsorted_ext (a : snapshot) : forall b, lsorted a -> lsorted b -> (forall k, get a k = get b k) -> a = b.
Proof.
  induction a as [|[k v] ta IH]; intros [|[k2 v2] tb] Ha Hb Hext.
  - reflexivity.
  - specialize (Hext k2). cbn [get] in Hext. rewrite Z.eqb_refl in Hext. discriminate.
  - specialize (Hext k). cbn [get] in Hext. rewrite Z.eqb_refl in Hext. discriminate.
  - cbn [lsorted] in Ha, Hb. destruct Ha as [Ha1 Ha2], Hb as [Hb1 Hb2].
    assert (Hk : k = k2).
    { destruct (Z.lt_trichotomy k k2) as [Hlt|[Heq|Hgt]]; [|exact Heq|].
      - pose proof (Hext k) as H. cbn [get] in H. rewrite Z.eqb_refl in H.
        destruct (k2 =? k) eqn:E; [apply Z.eqb_eq in E; lia|].
        rewrite (get_none_lt tb k) in H; [discriminate|]. intros k' v' Hin. specialize (Hb1 k' v' Hin). lia.
      - pose proof (Hext k2) as H. cbn [get] in H. rewrite Z.eqb_refl in H.
        destruct (k =? k2) eqn:E; [apply Z.eqb_eq in E; lia|].
        rewrite (get_none_lt ta k2) in H; [discriminate|]. intros k' v' Hin. specialize (Ha1 k' v' Hin). lia. }
    subst k2. pose proof (Hext k) as Hv. cbn [get] in Hv. rewrite Z.eqb_refl in Hv. inversion Hv; subst v2.
    f_equal. apply IH; [exact Ha2|exact Hb2|].
    intros k'. destruct (Z.eq_dec k k') as [<-|Hne].
    + rewrite (get_none_lt ta k Ha1), (get_none_lt tb k Hb1). reflexivity.
    + specialize (Hext k'). cbn [get] in Hext. apply Z.eqb_neq in Hne. rewrite Hne in Hext. exact Hext.
Qed.

(* ---- the two folds ----------------------------------------------------------------------- *)
Definition occurs_lbl (codes : list code) (Q : zmap (list Z)) (k : Z) : bool := existsb (fun ch => lblof codes ch =? k) Q.

(* the cells handed to the dictionaries of label k while walking Q *)
Definition ents_of (codes : list code) (cm : zmap (zmap (Z * Z))) (Q : zmap (list Z)) (k : Z) : list (Z * (Z * Z)) :=
  flat_map (fun ch => if lblof codes ch =? k then flat_map (fun key => getd [] cm key) (snd ch) else []) Q.

Lemma ents_of_label_hashes codes cm Q k :
  ents_of codes cm Q k = flat_map (fun key => getd [] cm key) (label_hashes codes Q k).
Proof.
  unfold ents_of, label_hashes, lblof. induction Q as [|ch Q IH]; cbn [flat_map]; [reflexivity|].
  rewrite flat_map_app, IH. destruct (c_lbl (nth_code codes (fst ch)) =? k); reflexivity.
Qed.

Lemma ents_of_absent codes cm Q k : occurs_lbl codes Q k = false -> ents_of codes cm Q k = [].
Proof.
  unfold occurs_lbl, ents_of. induction Q as [|ch Q IH]; cbn [existsb flat_map]; [reflexivity|].
  intros H. apply orb_false_iff in H as [H1 H2]. rewrite H1. cbn [app]. apply IH. exact H2.
Qed.

Definition fg (codes : list code) (cm : zmap (zmap (Z * Z))) (am : zmap (zmap (Z * Z)) * snapshot) (ch : Z * list Z)
  : zmap (zmap (Z * Z)) * snapshot :=
  let '(merged, stats) := am in
  let lbl := c_lbl (nth_code codes (fst ch)) in
  let ents := flat_map (fun k => getd [] cm k) (snd ch) in
  let m := gen_merge_into (getd [] merged lbl) ents in
  (set merged lbl m, insert_lbl (lbl, sort_entries (map (fun e => (fst e, fst (snd e), snd (snd e))) m)) stats).

Lemma gen_get_stats_fold codes st : gen_get_stats codes st = snd (fold_left (fg codes (cmap st)) (chm st) ([], [])).
Proof. reflexivity. Qed.

Lemma gen_merge_into_app acc a b : gen_merge_into acc (a ++ b) = gen_merge_into (gen_merge_into acc a) b.
Proof. unfold gen_merge_into. apply fold_left_app. Qed.

Lemma fg_fold codes cm Q : forall merged stats,
  let r := fold_left (fg codes cm) Q (merged, stats) in
  (forall k, getd [] (fst r) k = gen_merge_into (getd [] merged k) (ents_of codes cm Q k)) /\
  (forall k, get (snd r) k = if occurs_lbl codes Q k then Some (sortmap (getd [] (fst r) k)) else get stats k) /\
  (lsorted stats -> lsorted (snd r)).
Proof.
  induction Q as [|ch Q IH]; intros merged stats; cbn [fold_left].
  - cbn [fst snd]. repeat split; try (intros; reflexivity). intros H; exact H.
  - cbn zeta. unfold fg at 2. fold (lblof codes ch).
    set (lbl := c_lbl (nth_code codes (fst ch))).
    set (ents := flat_map (fun k => getd [] cm k) (snd ch)).
    set (m := gen_merge_into (getd [] merged lbl) ents).
    set (stats1 := insert_lbl (lbl, sort_entries (map (fun e => (fst e, fst (snd e), snd (snd e))) m)) stats).
    specialize (IH (set merged lbl m) stats1). cbn zeta in IH. destruct IH as [IH1 [IH2 IH3]].
    set (r := fold_left (fg codes cm) Q (set merged lbl m, stats1)) in *.
    assert (Hm : forall k, getd [] (set merged lbl m) k = if lbl =? k then m else getd [] merged k).
    { intros k. unfold getd. rewrite get_set. destruct (lbl =? k); reflexivity. }
    split; [|split].
    + intros k. rewrite IH1, Hm. unfold ents_of at 2. cbn [flat_map]. fold (ents_of codes cm Q k).
      unfold lblof at 1. fold lbl. rewrite gen_merge_into_app.
      destruct (lbl =? k) eqn:E.
      * apply Z.eqb_eq in E. subst k. reflexivity.
      * reflexivity.
    + intros k. rewrite IH2. unfold occurs_lbl at 2. cbn [existsb]. fold (occurs_lbl codes Q k).
      unfold lblof at 1. fold lbl.
      destruct (occurs_lbl codes Q k) eqn:Eo; [rewrite orb_true_r; reflexivity|]. rewrite orb_false_r.
      unfold stats1. rewrite get_insert_lbl. destruct (lbl =? k) eqn:E; [|reflexivity].
      apply Z.eqb_eq in E. subst k. f_equal. unfold sortmap. rewrite IH1, Hm, Z.eqb_refl.
      rewrite (ents_of_absent codes cm Q lbl Eo). reflexivity.
    + intros Hs. apply IH3. unfold stats1. apply insert_lbl_sorted. exact Hs.
Qed.

Definition fh (codes : list code) (st : cstate) (acc : snapshot) (ch : Z * list Z) : snapshot :=
  let lbl := c_lbl (nth_code codes (fst ch)) in
  insert_lbl (lbl, code_entries (cmap st) (label_hashes codes (chm st) lbl)) acc.

Lemma fh_fold codes st Q : forall acc,
  (forall k, get (fold_left (fh codes st) Q acc) k =
             if occurs_lbl codes Q k then Some (code_entries (cmap st) (label_hashes codes (chm st) k)) else get acc k) /\
  (lsorted acc -> lsorted (fold_left (fh codes st) Q acc)).
Proof.
  induction Q as [|ch Q IH]; intros acc; cbn [fold_left].
  - split; [intros; reflexivity|intros H; exact H].
  - destruct (IH (fh codes st acc ch)) as [IH1 IH2]. split.
    + intros k. rewrite IH1. unfold occurs_lbl at 2. cbn [existsb]. fold (occurs_lbl codes Q k).
      destruct (occurs_lbl codes Q k); [rewrite orb_true_r; reflexivity|]. rewrite orb_false_r.
      unfold fh. rewrite get_insert_lbl. unfold lblof. destruct (c_lbl (nth_code codes (fst ch)) =? k) eqn:E; [|reflexivity].
      apply Z.eqb_eq in E. subst k. reflexivity.
    + intros Hs. apply IH2. unfold fh. apply insert_lbl_sorted. exact Hs.
Qed.

Theorem gen_get_stats_eq codes st : gen_get_stats codes st = get_stats codes st.
Proof.
  rewrite gen_get_stats_fold. unfold get_stats. change (fold_left _ (chm st) []) with (fold_left (fh codes st) (chm st) []).
  destruct (fg_fold codes (cmap st) (chm st) [] []) as [G1 [G2 G3]]. cbn zeta in G1, G2, G3.
  destruct (fh_fold codes st (chm st) []) as [H1 H2].
  apply lsorted_ext; [apply G3; exact I|apply H2; exact I|].
  intros k. rewrite G2, H1. destruct (occurs_lbl codes (chm st) k); [|reflexivity].
  f_equal. unfold sortmap, code_entries. rewrite G1. cbn [getd get]. rewrite ents_of_label_hashes. reflexivity.
Qed.
