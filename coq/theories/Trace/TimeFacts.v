(* Time: non-negativity for the concrete run, the timer unit, and conservation for one thread. *)
From Coq Require Import List ZArith QArith Bool Lia.
From LP Require Import Trace.ZMap Trace.Concrete Trace.ConcreteFacts Trace.Abstract Trace.AbstractFacts.
Import ListNotations.
Open Scope Z_scope.

Theorem run_times_nonneg codes tick ops :
  clock_monotone tick ops -> forall key l, 0 <= btime (cmap (run codes tick 0 ops)) key l.
Proof.
  intros H key l. destruct (init_invariants 0) as [H1 H2].
  destruct (times_nonneg_and_monotone codes tick ops (init_state 0) H H1 H2) as [_ [Hn _]]. apply Hn.
Qed.

Theorem timer_unit (sec nsec : Z) :
  (inject_Z (sec * 1000000000 + nsec) * (1 # 1000000000) == inject_Z sec + inject_Z nsec * (1 # 1000000000))%Q.
Proof. rewrite inject_Z_plus, inject_Z_mult. unfold Qeq. simpl. ring. Qed.

(* total time charged to the lines of code c along a history (all threads) *)
Definition charge_of (codes : list code) (st : astate) (o : op) (c : Z) : Z :=
  match o with
  | L th c' _ _ l' | R th c' _ _ l' =>
      if a_accept codes st th c' l' && Z.eqb c' c
      then match ap st th c' with Some (_, ot) => anow st - ot | None => 0 end else 0
  | _ => 0
  end.
Fixpoint charged_from (codes : list code) (tick : Z) (st : astate) (ops : list op) (c : Z) : Z :=
  match ops with
  | [] => 0
  | o :: t => charge_of codes st o c + charged_from codes tick (a_step codes tick st o) t c
  end.
Definition charged (codes : list code) (tick : Z) (ops : list op) (c : Z) : Z :=
  charged_from codes tick (a_init 0) ops c.

Definition single_thread (t0 : Z) (ops : list op) : Prop :=
  forall o t, In o ops -> op_thread o = Some t -> t = t0.

Definition bound (st : astate) (t0 c : Z) : Z :=
  match ap st t0 c with Some (_, ot) => ot | None => anow st end.
Definition pend_ok (st : astate) (t0 c : Z) : Prop :=
  forall l ot, ap st t0 c = Some (l, ot) -> ot <= anow st.

Lemma a_event_bound codes tick st t0 c0 l0 isl c :
  0 <= tick -> pend_ok st t0 c ->
  let st' := a_event codes tick st t0 c0 l0 isl in
  charge_of codes st (if isl then L t0 c0 0 0 l0 else R t0 c0 0 0 l0) c + bound st t0 c <= bound st' t0 c
  /\ pend_ok st' t0 c /\ anow st <= anow st'.
Proof.
  intros Ht Hp. unfold a_event.
  assert (Hch : charge_of codes st (if isl then L t0 c0 0 0 l0 else R t0 c0 0 0 l0) c
                = if a_accept codes st t0 c0 l0 && Z.eqb c0 c
                  then match ap st t0 c0 with Some (_, ot) => anow st - ot | None => 0 end else 0)
    by (destruct isl; reflexivity).
  rewrite Hch. clear Hch.
  destruct (a_accept codes st t0 c0 l0) eqn:Ea; cbn [negb andb].
  2:{ repeat split; [lia|exact Hp|lia]. }
  destruct (Z.eqb_spec c0 c) as [->|Hne].
  - (* the event's code is c *)
    unfold bound, pend_ok. destruct (ap st t0 c) as [[ol ot]|] eqn:Ep.
    + specialize (Hp ol ot Ep).
      destruct isl; cbn [ap anow]; unfold updp; rewrite !Z.eqb_refl; cbn [andb];
        (split; [lia|split; [intros l1 ot1 H; try discriminate; injection H as _ <-; lia|lia]]).
    + destruct isl; cbn [ap anow]; unfold updp; rewrite !Z.eqb_refl; cbn [andb];
        (split; [lia|split; [intros l1 ot1 H; try discriminate; injection H as _ <-; lia|lia]]).
  - unfold bound, pend_ok.
    assert (Hsame : forall v h1 t1 nw, ap (mkas h1 t1 (updp (ap st) t0 c0 v) (areg st) (aen st) nw) t0 c = ap st t0 c).
    { intros. cbn [ap]. unfold updp. rewrite Z.eqb_refl. destruct (Z.eqb_spec c c0); [congruence|]. reflexivity. }
    destruct (ap st t0 c0) as [[ol ot]|]; destruct isl; cbn [anow]; rewrite Hsame;
      (destruct (ap st t0 c) as [[pl pt]|] eqn:Ep;
       [specialize (Hp pl pt Ep); split; [lia|split; [intros l1 ot1 H; injection H as _ <-; lia|lia]]
       |split; [lia|split; [intros l1 ot1 H; discriminate|lia]]]).
Qed.

Theorem charged_from_le codes tick t0 c : 0 <= tick ->
  forall ops st, single_thread t0 ops -> (forall d, In (A d) ops -> 0 <= d) -> pend_ok st t0 c ->
    charged_from codes tick st ops c + bound st t0 c <= anow (fold_left (a_step codes tick) ops st).
Proof.
  intros Ht. induction ops as [|o ops IH]; intros st Hs Hd Hp; cbn [charged_from fold_left].
  - unfold bound. destruct (ap st t0 c) as [[l ot]|] eqn:Ep; [specialize (Hp l ot Ep)|]; lia.
  - assert (Hs' : single_thread t0 ops) by (intros o' t' Hi; apply Hs; right; exact Hi).
    assert (Hd' : forall d, In (A d) ops -> 0 <= d) by (intros d Hi; apply Hd; right; exact Hi).
    assert (Hstep : charge_of codes st o c + bound st t0 c <= bound (a_step codes tick st o) t0 c
                    /\ pend_ok (a_step codes tick st o) t0 c).
    { destruct o; cbn [a_step charge_of].
      - destruct (inb ca (areg st) || _); unfold bound, pend_ok; cbn; (split; [lia|exact Hp]).
      - unfold bound, pend_ok; cbn. split; [lia|exact Hp].
      - assert (t = t0) by (apply (Hs (D t)); [left; reflexivity|reflexivity]). subst t.
        unfold bound, pend_ok. cbn [ap anow]. rewrite Z.eqb_refl.
        split; [|intros l ot H; discriminate].
        destruct (ap st t0 c) as [[l ot]|] eqn:Ep; [specialize (Hp l ot Ep)|]; lia.
      - assert (t = t0) by (apply (Hs (L t c0 f s l)); [left; reflexivity|reflexivity]). subst t.
        destruct (a_event_bound codes tick st t0 c0 l true c Ht Hp) as [H1 [H2 _]]. split; [exact H1|exact H2].
      - assert (t = t0) by (apply (Hs (R t c0 f s l)); [left; reflexivity|reflexivity]). subst t.
        destruct (a_event_bound codes tick st t0 c0 l false c Ht Hp) as [H1 [H2 _]]. split; [exact H1|exact H2].
      - specialize (Hd d (or_introl eq_refl)). unfold bound, pend_ok. cbn [ap anow].
        split; [destruct (ap st t0 c) as [[l ot]|]; lia|intros l ot H; specialize (Hp l ot H); lia].
      - split; [lia|exact Hp]. }
    destruct Hstep as [H1 H2]. pose proof (IH (a_step codes tick st o) Hs' Hd' H2) as H3. lia.
Qed.

(* one thread: the line times of a code object never sum to more than the clock time elapsed *)
Theorem charged_le_elapsed codes tick t0 ops c :
  clock_monotone tick ops -> single_thread t0 ops ->
  charged codes tick ops c <= anow (a_run codes tick 0 ops) - 0.
Proof.
  intros [Ht Hd] Hs. unfold charged, a_run.
  assert (H : charged_from codes tick (a_init 0) ops c + bound (a_init 0) t0 c <= anow (fold_left (a_step codes tick) ops (a_init 0)))
    by (apply (charged_from_le codes tick t0 c Ht ops (a_init 0) Hs Hd); intros l ot H; discriminate).
  unfold bound in H. cbn [a_init ap anow] in H. lia.
Qed.
