(* The tie between the tracer core regenerated from line_profiler/_line_profiler.pyx on every run
   (Gen/TraceCore.v) and the hand model Trace/Concrete.v all E1 theorems are stated about: the generated
   definitions are EQUAL to the model's.  A change of the source that changes the generated text breaks
   these proofs (or the translator refuses), which every E1 property reports. *)
From Coq Require Import List ZArith Bool Lia.
From LP Require Import Trace.ZMap Trace.Concrete Trace.Machine Gen.TraceCore.
Import ListNotations.
Open Scope Z_scope.

Lemma set_set {A} (m : zmap A) k (a b : A) : set (set m k a) k b = set m k b.
Proof.
  induction m as [|[k' v'] m IH]; cbn [set].
  - rewrite Z.eqb_refl. reflexivity.
  - destruct (Z.eqb k' k) eqn:E; cbn [set]; rewrite E; [reflexivity|]. rewrite IH. reflexivity.
Qed.

Lemma remove_absent {A} (m : zmap A) k : get m k = None -> remove m k = m.
Proof.
  induction m as [|[k' v'] m IH]; cbn [get remove]; [reflexivity|].
  destruct (Z.eqb k' k); [discriminate|]. intros H. rewrite (IH H). reflexivity.
Qed.

Lemma getd_gss {A} (d : A) (m : zmap A) k v : getd d (set m k v) k = v.
Proof. unfold getd. rewrite gss. reflexivity. Qed.

Lemma mem_get {A} (m : zmap A) k : mem m k = match get m k with Some _ => true | None => false end.
Proof. reflexivity. Qed.

Theorem gen_line_hash_eq h l : gen_line_hash h l = LH h l.
Proof. reflexivity. Qed.

Ltac fields := cbn [last now cmap chm dupes enabled snaps pad_ok fst snd negb].
Ltac simp := repeat (fields; rewrite ?getd_gss, ?set_set).

Theorem gen_callback_eq tick st t h l is_line :
  gen_callback tick st t h l is_line = callback tick st t h l is_line.
Proof.
  unfold gen_callback, callback. rewrite gen_line_hash_eq.
  unfold cm_count, mem. destruct (get (cmap st) (LH h l)) as [bucket|] eqn:Eb; [|reflexivity].
  set (key := LH h l) in *. set (lt := getd [] (last st) t).
  assert (Hb : getd [] (cmap st) key = bucket) by (unfold getd; rewrite Eb; reflexivity).
  unfold lt_count, lt_touch, lt_get, lt_set, lt_erase, tick_clock, with_now, with_last, mem.
  unfold cell_count, cell_add_hits, cell_add_time, cell_set, with_cmap, mem.
  simp. fold lt.
  destruct (get lt h) as [[old_l old_t]|] eqn:Eo.
  - assert (Hg : getd (0, 0) lt h = (old_l, old_t)) by (unfold getd; rewrite Eo; reflexivity).
    rewrite Hg. simp. rewrite Hb.
    destruct (get bucket old_l) as [[nh tot]|] eqn:Ec; simp.
    + assert (Hc : getd (0, 0) bucket old_l = (nh, tot)) by (unfold getd; rewrite Ec; reflexivity).
      rewrite ?Hb, ?Hc. simp. rewrite ?Hb, ?Hc. simp.
      destruct is_line; simp; fold lt; rewrite ?Eo; simp; reflexivity.
    + assert (Hc : getd (0, 0) bucket old_l = (0, 0)) by (unfold getd; rewrite Ec; reflexivity).
      rewrite ?Hb, ?Hc. simp. rewrite ?Hb, ?Hc. simp.
      destruct is_line; simp; fold lt; rewrite ?Eo; simp; reflexivity.
  - destruct is_line; simp; fold lt; rewrite ?Eo; simp; rewrite ?(remove_absent lt h Eo); reflexivity.
Qed.

Theorem gen_enable_eq codes tick st t : gen_enable st t = step codes tick st (E t).
Proof. reflexivity. Qed.

Theorem gen_disable_eq codes tick st t : gen_disable st t = step codes tick st (D t).
Proof. reflexivity. Qed.

Theorem gen_pad_step_eq d b k : gen_pad_step d b k = pad_step d b k.
Proof.
  unfold gen_pad_step, pad_step. destruct (dupes_get d b k) as [n|]; [|reflexivity].
  f_equal. lia.
Qed.

Theorem gen_reg_lines_eq h c lines : forall cm hm, gen_reg_lines h c lines cm hm = reg_lines h c lines cm hm.
Proof.
  induction lines as [|l t IH]; intros cm hm; cbn [gen_reg_lines reg_lines]; [reflexivity|].
  rewrite gen_line_hash_eq. destruct (mem cm (LH h l)); cbn [negb]; apply IH.
Qed.

(* the by-count pair: the counter never goes below zero; enable() is called exactly on 0 -> 1, disable() on 1 -> 0 *)
Theorem gen_by_count_balanced n : 0 <= n ->
  fst (gen_disable_by_count (fst (gen_enable_by_count n))) = n /\
  snd (gen_enable_by_count n) = Z.eqb n 0 /\
  snd (gen_disable_by_count (fst (gen_enable_by_count n))) = Z.eqb n 0 /\
  0 <= fst (gen_disable_by_count n).
Proof.
  intros Hn. unfold gen_enable_by_count, gen_disable_by_count. cbn [fst snd].
  destruct (0 <? n + 1) eqn:E1; [|apply Z.ltb_ge in E1; lia]. cbn [fst snd].
  replace (n + 1 - 1) with n by lia. repeat split; try reflexivity.
  destruct (0 <? n) eqn:E2; cbn [fst]; [apply Z.ltb_lt in E2; lia|lia].
Qed.
