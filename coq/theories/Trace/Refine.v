(* Refinement: under the no-collision hypotheses the concrete tracer (hash buckets keyed by the
   current line's hash, one pending slot per (thread, block hash)) is the abstract tracer
   (counters per (code, line), one pending slot per (thread, code)). *)
From Coq Require Import List ZArith Bool Lia.
From LP Require Import Trace.ZMap Trace.Concrete Trace.ConcreteFacts Trace.Abstract Trace.RefineLemmas.
Import ListNotations.
Open Scope Z_scope.

Section Refine.
  Variable codes : list code.
  Variable tick : Z.
  Variable RC : Z -> Prop.          (* codes registered somewhere in the history *)
  Variable EP : Z -> Z -> Prop.     (* (code, line) pairs of the history's events *)

  Definition hash (c : Z) : Z := c_hash (nth_code codes c).
  Definition lines (c : Z) : list Z := c_lines (nth_code codes c).

  (* NoCollision *)
  Hypothesis NC1 : forall c1 c2, RC c1 -> RC c2 -> hash c1 = hash c2 -> c1 = c2.
  Hypothesis NC2 : forall c1 l1 c2 l2, RC c1 -> In l1 (lines c1) -> EP c2 l2 ->
                                       LH (hash c1) l1 = LH (hash c2) l2 -> c2 = c1 /\ l2 = l1.
  Hypothesis NC3 : forall c1 l1 c2 l2, RC c1 -> In l1 (lines c1) -> RC c2 -> In l2 (lines c2) ->
                                       LH (hash c1) l1 = LH (hash c2) l2 -> c1 = c2.

  Record Inv (cs : cstate) (a : astate) : Prop := mkInv {
    v_reg : forall c, mem (chm cs) c = inb c (areg a);
    v_rc : forall c, In c (areg a) -> RC c;
    v_keys : forall c hs, get (chm cs) c = Some hs ->
                          NoDup hs /\ forall key, In key hs <-> exists l, In l (lines c) /\ key = LH (hash c) l;
    v_cmap : forall key, mem (cmap cs) key = true <-> exists c hs, get (chm cs) c = Some hs /\ In key hs;
    v_sum : forall c hs l, get (chm cs) c = Some hs ->
                           sumh (cmap cs) hs l = ah a c l /\ sumt (cmap cs) hs l = atm a c l;
    v_zero : forall c, ~ In c (areg a) -> (forall l, ah a c l = 0 /\ atm a c l = 0) /\ forall t, ap a t c = None;
    v_last : forall t c, In c (areg a) -> get (getd [] (last cs) t) (hash c) = ap a t c;
    v_lastdom : forall t h v, get (getd [] (last cs) t) h = Some v -> exists c, In c (areg a) /\ h = hash c;
    v_en : enabled cs = aen a;
    v_now : now cs = anow a
  }.

  Lemma inv_init start : Inv (init_state start) (a_init start).
  Proof.
    constructor; cbn; try reflexivity; try (intros; discriminate); try tauto;
      try (intros key; split; [discriminate|intros [c [hs [H _]]]; discriminate]);
      try (intros c _; split; [intros l; split; reflexivity|intros t; reflexivity]).
  Qed.

  Definition op_ok (o : op) : Prop :=
    match o with
    | G _ ca => RC ca
    | L _ c _ _ l | R _ c _ _ l => EP c l
    | _ => True
    end.

  (* ---- registered code: its keys are in the map ---------------------------------------- *)
  Lemma reg_key_mem cs a c l :
    Inv cs a -> In c (areg a) -> In l (lines c) -> mem (cmap cs) (LH (hash c) l) = true.
  Proof.
    intros I Hc Hl. apply (v_cmap cs a I).
    assert (Hm : mem (chm cs) c = true) by (rewrite (v_reg cs a I); apply inb_In; exact Hc).
    apply mem_get in Hm as [hs Hhs]. exists c, hs. split; [exact Hhs|].
    apply (v_keys cs a I c hs Hhs). exists l. split; [exact Hl|reflexivity].
  Qed.

  Lemma mem_key_reg cs a key :
    Inv cs a -> mem (cmap cs) key = true ->
    exists c hs l, get (chm cs) c = Some hs /\ In key hs /\ In c (areg a) /\ RC c /\ In l (lines c) /\ key = LH (hash c) l.
  Proof.
    intros I Hm. apply (v_cmap cs a I) in Hm as [c [hs [Hhs Hin]]].
    destruct (v_keys cs a I c hs Hhs) as [_ Hk]. apply Hk in Hin as Hl. destruct Hl as [l [Hl ->]].
    assert (Hc : In c (areg a)).
    { apply inb_In. rewrite <- (v_reg cs a I). apply mem_get. eexists; exact Hhs. }
    exists c, hs, l. repeat split; try assumption. apply (v_rc cs a I); exact Hc.
  Qed.

  (* ---- events --------------------------------------------------------------------------- *)
  Lemma inv_event cs a t c l isl :
    Inv cs a -> EP c l ->
    Inv (if is_enabled cs t then callback tick cs t (hash c) l isl else cs) (a_event codes tick a t c l isl).
  Proof.
    intros I Hep. unfold a_event, a_accept.
    assert (Hen : is_enabled cs t = inb t (aen a)) by (unfold is_enabled, inb; rewrite (v_en cs a I); reflexivity).
    rewrite Hen. destruct (inb t (aen a)) eqn:Et; cbn [andb negb]; [|exact I].
    unfold callback. destruct (get (cmap cs) (LH (hash c) l)) as [bucket|] eqn:Eb.
    2:{ (* no bucket: the abstract machine does not accept either *)
      destruct (inb c (areg a) && inb l (c_lines (nth_code codes c))) eqn:Ea; cbn [negb]; [|exact I].
      exfalso. apply andb_prop in Ea as [Ec El]. apply inb_In in Ec. apply inb_In in El.
      pose proof (reg_key_mem cs a c l I Ec El) as Hm. unfold mem in Hm. rewrite Eb in Hm. discriminate. }
    (* a bucket exists: it belongs to c itself, at line l *)
    assert (Hm : mem (cmap cs) (LH (hash c) l) = true) by (unfold mem; rewrite Eb; reflexivity).
    destruct (mem_key_reg cs a _ I Hm) as [c' [hs' [l' [Hhs' [Hin' [Hc' [Hrc' [Hl' Hkey]]]]]]]].
    destruct (NC2 c' l' c l Hrc' Hl' Hep (eq_sym Hkey)) as [-> ->].
    assert (Ec : inb c' (areg a) = true) by (apply inb_In; exact Hc').
    assert (El : inb l' (c_lines (nth_code codes c')) = true) by (apply inb_In; exact Hl').
    rewrite Ec, El. cbn [andb negb].
    rewrite (v_last cs a I t c' Hc').
    (* facts about other registered codes *)
    assert (Hother : forall c2 hs2, get (chm cs) c2 = Some hs2 -> c2 <> c' -> inb (LH (hash c') l') hs2 = false).
    { intros c2 hs2 H2 Hne. apply inb_false. intros Hi.
      destruct (v_keys cs a I c2 hs2 H2) as [_ Hk2]. apply Hk2 in Hi as [l2 [Hl2 He2]].
      assert (Hc2 : In c2 (areg a)) by (apply inb_In; rewrite <- (v_reg cs a I); apply mem_get; eexists; exact H2).
      apply Hne. symmetry. apply (NC3 c' l' c2 l2 Hrc' Hl' (v_rc cs a I c2 Hc2) Hl2 He2). }
    assert (Hown : inb (LH (hash c') l') hs' = true) by (apply inb_In; exact Hin').
    assert (Hhash : forall c2, In c2 (areg a) -> (Z.eqb (hash c') (hash c2) = Z.eqb c2 c')).
    { intros c2 Hc2. destruct (Z.eqb_spec c2 c') as [->|Hne]; [apply Z.eqb_refl|].
      destruct (Z.eqb_spec (hash c') (hash c2)) as [He|]; [|reflexivity].
      exfalso. apply Hne. symmetry. apply NC1; [exact Hrc'|apply (v_rc cs a I); exact Hc2|exact He]. }
    set (key := LH (hash c') l') in *.
    destruct (ap a t c') as [[ol ot]|] eqn:Ep.
    - (* a pending line is closed *)
      fold (cell_add (cmap cs) key bucket ol 1 (now cs - ot)).
      set (cm1 := cell_add (cmap cs) key bucket ol 1 (now cs - ot)).
      assert (Hsum : forall c2 hs2 l0, get (chm cs) c2 = Some hs2 ->
                sumh cm1 hs2 l0 = upd2 (ah a) c' ol (ah a c' ol + 1) c2 l0
                /\ sumt cm1 hs2 l0 = upd2 (atm a) c' ol (atm a c' ol + (anow a - ot)) c2 l0).
      { intros c2 hs2 l0 H2. destruct (v_keys cs a I c2 hs2 H2) as [Hnd _].
        destruct (v_sum cs a I c2 hs2 l0 H2) as [Hs1 Hs2]. unfold cm1.
        rewrite sumh_cell_add, sumt_cell_add by assumption. unfold upd2. rewrite Hs1, Hs2, (v_now cs a I).
        destruct (Z.eqb_spec c2 c') as [->|Hne]; cbn [andb].
        - rewrite Hhs' in H2. injection H2 as <-. rewrite Hown. cbn [andb].
          rewrite (Z.eqb_sym l0 ol). destruct (Z.eqb_spec ol l0) as [->|]; split; lia.
        - rewrite (Hother c2 hs2 H2 Hne). cbn [andb]. split; lia. }
      assert (Hmem : forall k, mem cm1 k = mem (cmap cs) k) by (intros k; apply mem_cell_add; exact Eb).
      destruct isl; constructor; cbn [cmap chm last enabled now ah atm ap areg aen anow];
        try (apply (v_reg cs a I)); try (apply (v_rc cs a I)); try (apply (v_keys cs a I)); try (apply (v_en cs a I));
        try (intros k; rewrite Hmem; apply (v_cmap cs a I)); try exact Hsum;
        try (rewrite (v_now cs a I); reflexivity).
      + intros c2 Hn2. destruct (v_zero cs a I c2 Hn2) as [Hz Hp]. assert (c2 <> c') by (intros ->; contradiction).
        split; [intros l0; unfold upd2; destruct (Z.eqb_spec c2 c'); [contradiction|]; cbn [andb]; apply Hz|].
        intros t0. unfold updp. destruct (Z.eqb_spec c2 c'); [contradiction|]. rewrite andb_false_r. apply Hp.
      + intros t0 c2 Hc2. rewrite getd_set. unfold updp. rewrite (Z.eqb_sym t0 t).
        destruct (Z.eqb_spec t t0) as [<-|]; cbn [andb]; [|apply (v_last cs a I); exact Hc2].
        rewrite get_set, (Hhash c2 Hc2). destruct (Z.eqb c2 c'); [rewrite (v_now cs a I); reflexivity|].
        apply (v_last cs a I); exact Hc2.
      + intros t0 h0 v0. rewrite getd_set. destruct (Z.eqb_spec t t0) as [<-|]; [|apply (v_lastdom cs a I)].
        rewrite get_set. destruct (Z.eqb_spec (hash c') h0) as [<-|]; [intros _; exists c'; split; [exact Hc'|reflexivity]|].
        apply (v_lastdom cs a I).
      + intros c2 Hn2. destruct (v_zero cs a I c2 Hn2) as [Hz Hp]. assert (c2 <> c') by (intros ->; contradiction).
        split; [intros l0; unfold upd2; destruct (Z.eqb_spec c2 c'); [contradiction|]; cbn [andb]; apply Hz|].
        intros t0. unfold updp. destruct (Z.eqb_spec c2 c'); [contradiction|]. rewrite andb_false_r. apply Hp.
      + intros t0 c2 Hc2. rewrite getd_set. unfold updp. rewrite (Z.eqb_sym t0 t).
        destruct (Z.eqb_spec t t0) as [<-|]; cbn [andb]; [|apply (v_last cs a I); exact Hc2].
        rewrite get_remove, (Hhash c2 Hc2). destruct (Z.eqb c2 c'); [reflexivity|].
        apply (v_last cs a I); exact Hc2.
      + intros t0 h0 v0. rewrite getd_set. destruct (Z.eqb_spec t t0) as [<-|]; [|apply (v_lastdom cs a I)].
        rewrite get_remove. destruct (Z.eqb (hash c') h0); [discriminate|]. apply (v_lastdom cs a I).
    - (* nothing pending *)
      destruct isl; constructor; cbn [cmap chm last enabled now ah atm ap areg aen anow];
        try (apply (v_reg cs a I)); try (apply (v_rc cs a I)); try (apply (v_keys cs a I)); try (apply (v_en cs a I));
        try (apply (v_cmap cs a I)); try (apply (v_sum cs a I));
        try (rewrite (v_now cs a I); reflexivity).
      + intros c2 Hn2. destruct (v_zero cs a I c2 Hn2) as [Hz Hp]. split; [exact Hz|].
        intros t0. unfold updp. destruct (Z.eqb_spec c2 c') as [->|]; [contradiction|]. rewrite andb_false_r. apply Hp.
      + intros t0 c2 Hc2. rewrite getd_set. unfold updp. rewrite (Z.eqb_sym t0 t).
        destruct (Z.eqb_spec t t0) as [<-|]; cbn [andb]; [|apply (v_last cs a I); exact Hc2].
        rewrite get_set, (Hhash c2 Hc2). destruct (Z.eqb c2 c'); [rewrite (v_now cs a I); reflexivity|].
        apply (v_last cs a I); exact Hc2.
      + intros t0 h0 v0. rewrite getd_set. destruct (Z.eqb_spec t t0) as [<-|]; [|apply (v_lastdom cs a I)].
        rewrite get_set. destruct (Z.eqb_spec (hash c') h0) as [<-|]; [intros _; exists c'; split; [exact Hc'|reflexivity]|].
        apply (v_lastdom cs a I).
      + intros c2 Hn2. destruct (v_zero cs a I c2 Hn2) as [Hz Hp]. split; [exact Hz|].
        intros t0. unfold updp. destruct (Z.eqb_spec c2 c') as [->|]; [contradiction|]. rewrite andb_false_r. apply Hp.
      + intros t0 c2 Hc2. rewrite getd_set. unfold updp. rewrite (Z.eqb_sym t0 t).
        destruct (Z.eqb_spec t t0) as [<-|]; cbn [andb]; [|apply (v_last cs a I); exact Hc2].
        rewrite get_remove, (Hhash c2 Hc2). destruct (Z.eqb c2 c'); [reflexivity|].
        apply (v_last cs a I); exact Hc2.
      + intros t0 h0 v0. rewrite getd_set. destruct (Z.eqb_spec t t0) as [<-|]; [|apply (v_lastdom cs a I)].
        rewrite get_remove. destruct (Z.eqb (hash c') h0); [discriminate|]. apply (v_lastdom cs a I).
  Qed.

  (* ---- registration -------------------------------------------------------------------- *)
  Lemma inv_register cs a cb ca :
    Inv cs a -> RC ca -> Inv (add_function codes cs cb ca) (a_step codes tick a (G cb ca)).
  Proof.
    intros I Hrc. unfold add_function. destruct (pad_step _ _ _) as [d' k'].
    fold (hash ca). fold (lines ca).
    destruct (reg_lines (hash ca) ca (lines ca) (cmap cs) (chm cs)) as [cm' hm'] eqn:Er.
    assert (Ecm : cm' = fst (reg_lines (hash ca) ca (lines ca) (cmap cs) (chm cs))) by (rewrite Er; reflexivity).
    assert (Ehm : hm' = snd (reg_lines (hash ca) ca (lines ca) (cmap cs) (chm cs))) by (rewrite Er; reflexivity).
    assert (Hgetd : forall key, getd [] cm' key = getd [] (cmap cs) key) by (intros; subst cm'; apply reg_lines_getd).
    assert (Hbh : forall key l, bhits cm' key l = bhits (cmap cs) key l) by (intros; unfold bhits; rewrite Hgetd; reflexivity).
    assert (Hbt : forall key l, btime cm' key l = btime (cmap cs) key l) by (intros; unfold btime; rewrite Hgetd; reflexivity).
    assert (Hmem : forall key, mem cm' key = mem (cmap cs) key || inb key (map (LH (hash ca)) (lines ca)))
      by (intros; subst cm'; apply reg_lines_mem).
    assert (Hoth : forall c, c <> ca -> get hm' c = get (chm cs) c) by (intros; subst hm'; apply reg_lines_other; assumption).
    destruct (reg_lines_new (hash ca) ca (lines ca) (cmap cs) (chm cs)) as [news [N1 [N2 [N3 [N4 N5]]]]].
    rewrite <- Ehm in N1, N4, N5.
    cbn [a_step]. fold (lines ca).
    destruct (inb ca (areg a)) eqn:Ereg; cbn [orb].
    - (* already registered: every key is present, nothing changes *)
      apply inb_In in Ereg.
      assert (Hnews : news = []).
      { destruct news as [|x xs]; [reflexivity|]. exfalso.
        destruct (proj1 (N3 x) (or_introl eq_refl)) as [Hf Hi]. apply in_map_iff in Hi as [l [<- Hl]].
        rewrite (reg_key_mem cs a ca l I Ereg Hl) in Hf. discriminate. }
      assert (Hhm : hm' = chm cs) by (apply N4; exact Hnews).
      assert (Hmem' : forall key, mem cm' key = mem (cmap cs) key).
      { intros key. rewrite Hmem. destruct (inb key (map (LH (hash ca)) (lines ca))) eqn:Ei; [|apply orb_false_r].
        apply inb_In in Ei. apply in_map_iff in Ei as [l [<- Hl]]. rewrite (reg_key_mem cs a ca l I Ereg Hl). reflexivity. }
      constructor; cbn [cmap chm last enabled now]; rewrite ?Hhm;
        try (apply (v_reg cs a I)); try (apply (v_rc cs a I)); try (apply (v_keys cs a I)); try (apply (v_en cs a I));
        try (apply (v_zero cs a I)); try (apply (v_last cs a I)); try (apply (v_lastdom cs a I)); try (apply (v_now cs a I)).
      + intros key. rewrite Hmem'. apply (v_cmap cs a I).
      + intros c hs l Hc. rewrite (sumh_ext (cmap cs) cm'), (sumt_ext (cmap cs) cm') by (intros; auto). apply (v_sum cs a I); exact Hc.
    - (* a new code object *)
      apply inb_false in Ereg.
      assert (Hnomem : forall l, In l (lines ca) -> mem (cmap cs) (LH (hash ca) l) = false).
      { intros l Hl. destruct (mem (cmap cs) (LH (hash ca) l)) eqn:Em; [|reflexivity]. exfalso.
        destruct (mem_key_reg cs a _ I Em) as [c' [hs' [l' [_ [_ [Hc' [Hrc' [Hl' Hk]]]]]]]].
        apply Ereg. rewrite (NC3 ca l c' l' Hrc Hl Hrc' Hl' Hk). exact Hc'. }
      assert (Hnochm : get (chm cs) ca = None).
      { destruct (get (chm cs) ca) eqn:Eg; [|reflexivity]. exfalso. apply Ereg. apply inb_In.
        rewrite <- (v_reg cs a I). unfold mem. rewrite Eg. reflexivity. }
      assert (Hnews : forall key, In key news <-> exists l, In l (lines ca) /\ key = LH (hash ca) l).
      { intros key. rewrite N3. split.
        - intros [_ Hi]. apply in_map_iff in Hi as [l [<- Hl]]. exists l; split; [exact Hl|reflexivity].
        - intros [l [Hl ->]]. split; [apply Hnomem; exact Hl|apply in_map_iff; exists l; split; [reflexivity|exact Hl]]. }
      destruct (lines ca) as [|l0 ls] eqn:El.
      + (* no lines: nothing is registered *)
        cbn [list_eqb].
        assert (Hn0 : news = []).
        { destruct news as [|x xs]; [reflexivity|]. destruct (proj1 (Hnews x) (or_introl eq_refl)) as [l [[] _]]. }
        assert (Hhm : hm' = chm cs) by (apply N4; exact Hn0).
        assert (Hmem' : forall key, mem cm' key = mem (cmap cs) key) by (intros key; rewrite Hmem; cbn; apply orb_false_r).
        constructor; cbn [cmap chm last enabled now]; rewrite ?Hhm;
          try (apply (v_reg cs a I)); try (apply (v_rc cs a I)); try (apply (v_keys cs a I)); try (apply (v_en cs a I));
          try (apply (v_zero cs a I)); try (apply (v_last cs a I)); try (apply (v_lastdom cs a I)); try (apply (v_now cs a I)).
        * intros key. rewrite Hmem'. apply (v_cmap cs a I).
        * intros c hs l Hc. rewrite (sumh_ext (cmap cs) cm'), (sumt_ext (cmap cs) cm') by (intros; auto). apply (v_sum cs a I); exact Hc.
      + assert (Hlist : list_eqb Z.eqb (l0 :: ls) [] = false) by reflexivity. rewrite Hlist.
        assert (Hnn : news <> []).
        { intros E. assert (Hi : In (LH (hash ca) l0) news) by (apply Hnews; exists l0; split; [left; reflexivity|reflexivity]).
          rewrite E in Hi. destruct Hi. }
        assert (Hget : get hm' ca = Some news).
        { pose proof (N5 Hnn) as Hm. apply mem_get in Hm as [v Hv]. unfold getd in N1. rewrite Hv, Hnochm in N1. cbn in N1. congruence. }
        constructor; cbn [cmap chm last enabled now ah atm ap areg aen anow].
        * intros c. cbn [inb existsb]. fold (inb c (areg a)). destruct (Z.eqb_spec c ca) as [->|Hne].
          -- unfold mem. rewrite Hget. reflexivity.
          -- unfold mem. rewrite (Hoth c Hne). apply (v_reg cs a I).
        * intros c [<-|Hc]; [exact Hrc|apply (v_rc cs a I); exact Hc].
        * intros c hs Hc. destruct (Z.eq_dec c ca) as [->|Hne].
          -- rewrite Hget in Hc. injection Hc as <-. split; [exact N2|]. intros key. rewrite Hnews, El. reflexivity.
          -- rewrite (Hoth c Hne) in Hc. apply (v_keys cs a I); exact Hc.
        * intros key. rewrite Hmem. split.
          -- intros Hor. apply orb_prop in Hor as [Hm|Hi].
             ++ apply (v_cmap cs a I) in Hm as [c [hs [Hc Hin]]]. exists c, hs. split; [|exact Hin].
                destruct (Z.eq_dec c ca) as [->|Hne]; [congruence|]. rewrite (Hoth c Hne). exact Hc.
             ++ exists ca, news. split; [exact Hget|]. apply Hnews. apply inb_In in Hi. apply in_map_iff in Hi as [l [<- Hl]].
                exists l. split; [exact Hl|reflexivity].
          -- intros [c [hs [Hc Hin]]]. destruct (Z.eq_dec c ca) as [->|Hne].
             ++ rewrite Hget in Hc. injection Hc as <-. apply Hnews in Hin as [l [Hl ->]]. apply orb_true_intro. right.
                apply inb_In. apply in_map_iff. exists l. split; [reflexivity|exact Hl].
             ++ rewrite (Hoth c Hne) in Hc. apply orb_true_intro. left. apply (v_cmap cs a I). exists c, hs. split; assumption.
        * intros c hs l Hc. destruct (Z.eq_dec c ca) as [->|Hne].
          -- rewrite Hget in Hc. injection Hc as <-. destruct (v_zero cs a I ca Ereg) as [Hz _]. destruct (Hz l) as [Hz1 Hz2].
             rewrite Hz1, Hz2.
             assert (Hall : forall key, In key news -> bhits cm' key l = 0 /\ btime cm' key l = 0).
             { intros key Hk. rewrite Hbh, Hbt. apply Hnews in Hk as [l1 [Hl1 ->]].
               pose proof (Hnomem l1 Hl1) as Hf.
               unfold bhits, btime, getd at 2 4. unfold mem in Hf. destruct (get (cmap cs) (LH (hash ca) l1)); [discriminate|]. split; reflexivity. }
             clear -Hall. induction news as [|x xs IH]; [split; reflexivity|]. cbn [sumh sumt fold_right].
             destruct (Hall x (or_introl eq_refl)) as [-> ->]. destruct IH as [IH1 IH2]; [intros k Hk; apply Hall; right; exact Hk|].
             unfold sumh in IH1. unfold sumt in IH2. rewrite IH1, IH2. split; reflexivity.
          -- rewrite (Hoth c Hne) in Hc. rewrite (sumh_ext (cmap cs) cm'), (sumt_ext (cmap cs) cm') by (intros; auto).
             apply (v_sum cs a I); exact Hc.
        * intros c Hn. apply (v_zero cs a I). intros Hc. apply Hn. right. exact Hc.
        * intros t c [<-|Hc]; [|apply (v_last cs a I); exact Hc].
          destruct (v_zero cs a I ca Ereg) as [_ Hp]. rewrite Hp.
          destruct (get (getd [] (last cs) t) (hash ca)) as [v|] eqn:Eg; [|reflexivity]. exfalso.
          destruct (v_lastdom cs a I t _ v Eg) as [c2 [Hc2 Hh]]. apply Ereg.
          rewrite (NC1 ca c2 Hrc (v_rc cs a I c2 Hc2) Hh). exact Hc2.
        * intros t h v Hg. destruct (v_lastdom cs a I t h v Hg) as [c2 [Hc2 Hh]]. exists c2. split; [right; exact Hc2|exact Hh].
        * apply (v_en cs a I).
        * apply (v_now cs a I).
  Qed.

  Lemma inv_step cs a o : Inv cs a -> op_ok o -> Inv (step codes tick cs o) (a_step codes tick a o).
  Proof.
    intros I Hok. destruct o; cbn [step op_ok] in *.
    - apply inv_register; assumption.
    - cbn [a_step]. destruct I; constructor; cbn; auto; congruence.
    - cbn [a_step]. constructor; cbn [cmap chm last enabled now ah atm ap areg aen anow];
        try (apply (v_reg cs a I)); try (apply (v_rc cs a I)); try (apply (v_keys cs a I));
        try (apply (v_cmap cs a I)); try (apply (v_sum cs a I)); try (apply (v_now cs a I)).
      + intros c Hn. destruct (v_zero cs a I c Hn) as [Hz Hp]. split; [exact Hz|]. intros t0. destruct (Z.eqb t0 t); [reflexivity|apply Hp].
      + intros t0 c Hc. rewrite getd_set, (Z.eqb_sym t0 t). destruct (Z.eqb t t0); [reflexivity|apply (v_last cs a I); exact Hc].
      + intros t0 h v. rewrite getd_set. destruct (Z.eqb t t0); [discriminate|apply (v_lastdom cs a I)].
      + rewrite (v_en cs a I). reflexivity.
    - apply (inv_event cs a t c l true I Hok).
    - apply (inv_event cs a t c l false I Hok).
    - cbn [a_step]. destruct I; constructor; cbn; auto; congruence.
    - cbn [a_step]. destruct I; constructor; cbn; auto.
  Qed.

  Theorem refinement ops : forall cs a,
    Inv cs a -> (forall o, In o ops -> op_ok o) ->
    Inv (fold_left (step codes tick) ops cs) (fold_left (a_step codes tick) ops a).
  Proof.
    induction ops as [|o ops IH]; intros cs a I Hok; cbn [fold_left]; [exact I|].
    apply IH; [apply inv_step; [exact I|apply Hok; left; reflexivity]|intros o' Ho'; apply Hok; right; exact Ho'].
  Qed.
End Refine.
