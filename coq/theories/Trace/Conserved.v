(* Conservation against ENABLED time (the full clause of C02): for one thread, the time charged to the
   lines of a code object never exceeds the clock time that elapsed while that thread's tracing was
   switched on.  Strengthens TimeFacts.charged_le_elapsed (which bounds by all elapsed time).
   The argument: a pending line exists only while the thread is enabled (disable() clears the thread's
   pending table - the statement fails for a tracer whose disable() leaves a pending line behind), there is
   one pending slot per (thread, code), so the charged intervals are disjoint pieces of enabled time. *)
From Coq Require Import List ZArith Bool Lia.
From LP Require Import Trace.ZMap Trace.Concrete Trace.ConcreteFacts Trace.Abstract Trace.AbstractFacts Trace.TimeFacts
     Trace.Main Trace.TimeExact Trace.TimeMain.
Import ListNotations.
Open Scope Z_scope.

(* clock time that passes during one step, counted only when thread t0 is enabled at the step's start *)
Definition en_step (codes : list code) (tick : Z) (t0 : Z) (st : astate) (o : op) : Z :=
  if inb t0 (aen st) then anow (a_step codes tick st o) - anow st else 0.
Fixpoint enabled_from (codes : list code) (tick t0 : Z) (st : astate) (ops : list op) : Z :=
  match ops with
  | [] => 0
  | o :: t => en_step codes tick t0 st o + enabled_from codes tick t0 (a_step codes tick st o) t
  end.
(* the wall-clock time (on the profiler's clock) during which thread t0 had the profiler enabled *)
Definition enabled_time (codes : list code) (tick t0 : Z) (ops : list op) : Z :=
  enabled_from codes tick t0 (a_init 0) ops.

(* pending time of (t0, c) so far: enabled time already elapsed, not yet charged *)
Definition slack (st : astate) (t0 c : Z) : Z :=
  match ap st t0 c with Some (_, ot) => anow st - ot | None => 0 end.
Definition pend_en (st : astate) (t0 c : Z) : Prop :=
  forall l ot, ap st t0 c = Some (l, ot) -> inb t0 (aen st) = true.

Lemma inb_cons x y l : inb x l = true -> inb x (y :: l) = true.
Proof. unfold inb. cbn [existsb]. intros ->. apply orb_true_r. Qed.

Lemma a_accept_enabled codes st t c l : a_accept codes st t c l = true -> inb t (aen st) = true.
Proof. unfold a_accept. intros H. apply andb_true_iff in H. destruct H as [H _]. apply andb_true_iff in H. tauto. Qed.

Lemma a_event_conserved codes tick st t0 c0 l0 (isl : bool) c :
  0 <= tick -> pend_ok st t0 c -> pend_en st t0 c ->
  charge_of codes st (if isl then L t0 c0 0 0 l0 else R t0 c0 0 0 l0) c + slack (a_event codes tick st t0 c0 l0 isl) t0 c
    <= slack st t0 c + (if inb t0 (aen st) then anow (a_event codes tick st t0 c0 l0 isl) - anow st else 0)
  /\ pend_ok (a_event codes tick st t0 c0 l0 isl) t0 c /\ pend_en (a_event codes tick st t0 c0 l0 isl) t0 c.
Proof.
  intros Ht Hp He. unfold a_event.
  assert (Hch : charge_of codes st (if isl then L t0 c0 0 0 l0 else R t0 c0 0 0 l0) c
                = if a_accept codes st t0 c0 l0 && Z.eqb c0 c
                  then match ap st t0 c0 with Some (_, ot) => anow st - ot | None => 0 end else 0)
    by (destruct isl; reflexivity).
  rewrite Hch. clear Hch.
  destruct (a_accept codes st t0 c0 l0) eqn:Ea; cbn [negb andb].
  2:{ split; [destruct (inb t0 (aen st)); lia|split; assumption]. }
  pose proof (a_accept_enabled codes st t0 c0 l0 Ea) as Hen. rewrite Hen.
  destruct (Z.eqb_spec c0 c) as [->|Hne].
  - unfold slack, pend_ok, pend_en. destruct (ap st t0 c) as [[ol ot]|] eqn:Ep.
    + specialize (Hp ol ot Ep).
      destruct isl; cbn [ap anow aen]; unfold updp; rewrite !Z.eqb_refl; cbn [andb];
        (split; [lia|split; [intros l1 ot1 H; try discriminate; injection H as _ <-; lia
                            |intros l1 ot1 H; exact Hen]]).
    + destruct isl; cbn [ap anow aen]; unfold updp; rewrite !Z.eqb_refl; cbn [andb];
        (split; [lia|split; [intros l1 ot1 H; try discriminate; injection H as _ <-; lia
                            |intros l1 ot1 H; exact Hen]]).
  - unfold slack, pend_ok, pend_en.
    assert (Hsame : forall v h1 t1 nw, ap (mkas h1 t1 (updp (ap st) t0 c0 v) (areg st) (aen st) nw) t0 c = ap st t0 c).
    { intros. cbn [ap]. unfold updp. rewrite Z.eqb_refl. destruct (Z.eqb_spec c c0); [congruence|]. reflexivity. }
    destruct (ap st t0 c0) as [[ol ot]|]; destruct isl; cbn [anow aen]; rewrite Hsame;
      (destruct (ap st t0 c) as [[pl pt]|] eqn:Ep;
       [specialize (Hp pl pt Ep); split; [lia|split; [intros l1 ot1 H; injection H as _ <-; lia|intros l1 ot1 H; exact Hen]]
       |split; [lia|split; [intros l1 ot1 H; discriminate|intros l1 ot1 H; discriminate]]]).
Qed.

Theorem charged_from_le_enabled codes tick t0 c : 0 <= tick ->
  forall ops st, single_thread t0 ops -> (forall d, In (A d) ops -> 0 <= d) ->
    pend_ok st t0 c -> pend_en st t0 c ->
    charged_from codes tick st ops c <= slack st t0 c + enabled_from codes tick t0 st ops.
Proof.
  intros Ht. induction ops as [|o ops IH]; intros st Hs Hd Hp He; cbn [charged_from enabled_from].
  - unfold slack. destruct (ap st t0 c) as [[l ot]|] eqn:Ep; [specialize (Hp l ot Ep)|]; lia.
  - assert (Hs' : single_thread t0 ops) by (intros o' t' Hi; apply Hs; right; exact Hi).
    assert (Hd' : forall d, In (A d) ops -> 0 <= d) by (intros d Hi; apply Hd; right; exact Hi).
    assert (Hstep : charge_of codes st o c + slack (a_step codes tick st o) t0 c
                      <= slack st t0 c + en_step codes tick t0 st o
                    /\ pend_ok (a_step codes tick st o) t0 c /\ pend_en (a_step codes tick st o) t0 c).
    { unfold en_step. destruct o; cbn [a_step charge_of].
      - (* G *)
        destruct (inb ca (areg st) || _); unfold slack, pend_ok, pend_en; cbn [ap anow aen];
          (split; [destruct (inb t0 (aen st)); lia|split; assumption]).
      - (* E *)
        unfold slack, pend_ok, pend_en; cbn [ap anow aen].
        split; [destruct (inb t0 (aen st)); lia|split; [exact Hp|]].
        intros l ot H. apply inb_cons. exact (He l ot H).
      - (* D *)
        assert (t = t0) by (apply (Hs (D t)); [left; reflexivity|reflexivity]). subst t.
        unfold slack, pend_ok, pend_en. cbn [ap anow aen]. rewrite Z.eqb_refl.
        split; [|split; intros l ot H; discriminate].
        destruct (ap st t0 c) as [[l ot]|] eqn:Ep; [specialize (Hp l ot Ep)|]; destruct (inb t0 (aen st)); lia.
      - (* L *)
        assert (t = t0) by (apply (Hs (L t c0 f s l)); [left; reflexivity|reflexivity]). subst t.
        exact (a_event_conserved codes tick st t0 c0 l true c Ht Hp He).
      - (* R *)
        assert (t = t0) by (apply (Hs (R t c0 f s l)); [left; reflexivity|reflexivity]). subst t.
        exact (a_event_conserved codes tick st t0 c0 l false c Ht Hp He).
      - (* A *)
        specialize (Hd d (or_introl eq_refl)). unfold slack, pend_ok, pend_en. cbn [ap anow aen].
        split; [|split; [intros l ot H; specialize (Hp l ot H); lia|exact He]].
        destruct (ap st t0 c) as [[l ot]|] eqn:Ep.
        + rewrite (He l ot Ep). lia.
        + destruct (inb t0 (aen st)); lia.
      - (* S *)
        split; [destruct (inb t0 (aen st)); lia|split; assumption]. }
    destruct Hstep as [H1 [H2 H3]]. pose proof (IH (a_step codes tick st o) Hs' Hd' H2 H3) as H4. lia.
Qed.

(* one thread: the line times of a code object never sum to more than the time the profiler was enabled *)
Theorem charged_le_enabled codes tick t0 ops c :
  clock_monotone tick ops -> single_thread t0 ops ->
  charged codes tick ops c <= enabled_time codes tick t0 ops.
Proof.
  intros [Ht Hd] Hs. unfold charged, enabled_time.
  pose proof (charged_from_le_enabled codes tick t0 c Ht ops (a_init 0) Hs Hd) as H.
  unfold slack in H. cbn [a_init ap] in H. apply H; intros l ot H0; discriminate.
Qed.

(* enabled time is a part of elapsed time *)
Lemma a_step_clock codes tick st o : 0 <= tick -> (forall d, o = A d -> 0 <= d) -> anow st <= anow (a_step codes tick st o).
Proof.
  intros Ht Hd. destruct o; cbn [a_step anow]; try lia.
  - destruct (inb ca (areg st) || _); cbn [anow]; lia.
  - unfold a_event. destruct (negb (a_accept codes st t c l)); [lia|].
    destruct (ap st t c) as [[ol ot]|]; cbn [anow]; lia.
  - unfold a_event. destruct (negb (a_accept codes st t c l)); [lia|].
    destruct (ap st t c) as [[ol ot]|]; cbn [anow]; lia.
  - specialize (Hd d eq_refl). lia.
Qed.

Theorem enabled_from_le_elapsed codes tick t0 : 0 <= tick ->
  forall ops st, (forall d, In (A d) ops -> 0 <= d) ->
    0 <= enabled_from codes tick t0 st ops <= anow (fold_left (a_step codes tick) ops st) - anow st.
Proof.
  intros Ht. induction ops as [|o ops IH]; intros st Hd; cbn [enabled_from fold_left]; [lia|].
  assert (Hd' : forall d, In (A d) ops -> 0 <= d) by (intros d Hi; apply Hd; right; exact Hi).
  assert (H1 : anow st <= anow (a_step codes tick st o)).
  { apply a_step_clock; [exact Ht|]. intros d ->. apply Hd. left. reflexivity. }
  specialize (IH (a_step codes tick st o) Hd'). unfold en_step. destruct (inb t0 (aen st)); lia.
Qed.

Theorem enabled_le_elapsed codes tick t0 ops :
  clock_monotone tick ops -> 0 <= enabled_time codes tick t0 ops <= anow (a_run codes tick 0 ops) - 0.
Proof.
  intros [Ht Hd]. unfold enabled_time, a_run.
  pose proof (enabled_from_le_elapsed codes tick t0 Ht ops (a_init 0) Hd) as H. cbn [a_init anow] in H. lia.
Qed.

(* ---- a tracer whose disable() forgets to clear the pending table is NOT conservative: the pending line
   survives the disabled period and is charged for it (witness; the abstract step with the D case replaced) *)
Definition a_step_leaky (codes : list code) (tick : Z) (st : astate) (o : op) : astate :=
  match o with
  | D t => mkas (ah st) (atm st) (ap st) (areg st) (filter (fun x => negb (Z.eqb x t)) (aen st)) (anow st)
  | _ => a_step codes tick st o
  end.
Definition leaky_codes : list code := [mkcode 0 0 0 100 [1; 2; 3]].
Definition leaky_ops : list op := [G 0 0; E 0; L 0 0 0 0 1; A 5; D 0; A 1000; E 0; L 0 0 0 0 2; R 0 0 0 0 2; D 0].
Lemma leaky_not_conserved :
  atm (fold_left (a_step_leaky leaky_codes 0) leaky_ops (a_init 0)) 0 1 = 1005
  /\ enabled_time leaky_codes 0 0 leaky_ops = 5
  /\ atm (a_run leaky_codes 0 0 leaky_ops) 0 1 = 0.
Proof. vm_compute. repeat split. Qed.

(* ---- "the line times of a function sum to ..." : the charged total IS the sum of the code's time
   accumulators over its lines (all threads), so the bounds above are bounds on what is reported ---------- *)
Definition tot (st : astate) (c : Z) (ls : list Z) : Z := fold_right (fun l acc => atm st c l + acc) 0 ls.
Definition pend_in (st : astate) (c : Z) (ls : list Z) : Prop :=
  forall t l ot, ap st t c = Some (l, ot) -> In l ls.

Lemma tot_upd2_other f h p r n nw c c' ol v ls : c' <> c ->
  tot (mkas h (upd2 f c' ol v) p r n nw) c ls = fold_right (fun l acc => f c l + acc) 0 ls.
Proof.
  intros Hne. unfold tot. cbn [atm]. induction ls as [|x xs IH]; cbn [fold_right]; [reflexivity|].
  rewrite IH. unfold upd2. destruct (Z.eqb_spec c c'); [congruence|]. reflexivity.
Qed.

Lemma sum_upd2_notin f c ol v ls : ~ In ol ls ->
  fold_right (fun l acc => upd2 f c ol v c l + acc) 0 ls = fold_right (fun l acc => f c l + acc) 0 ls.
Proof.
  induction ls as [|x xs IH]; cbn [fold_right In]; intros Hn; [reflexivity|].
  rewrite IH by tauto. unfold upd2. rewrite Z.eqb_refl. destruct (Z.eqb_spec x ol); [subst; tauto|]. reflexivity.
Qed.

Lemma sum_upd2_in f c ol d ls : NoDup ls -> In ol ls ->
  fold_right (fun l acc => upd2 f c ol (f c ol + d) c l + acc) 0 ls = fold_right (fun l acc => f c l + acc) 0 ls + d.
Proof.
  induction ls as [|x xs IH]; cbn [fold_right In]; intros Hnd Hi; [tauto|].
  inversion Hnd as [|? ? Hx Hnd']; subst.
  destruct (Z.eq_dec x ol) as [->|Hne].
  - rewrite sum_upd2_notin by exact Hx. unfold upd2 at 1. rewrite !Z.eqb_refl. cbn [andb]. lia.
  - assert (Hi' : In ol xs) by (destruct Hi; [congruence|assumption]).
    rewrite (IH Hnd' Hi').
    unfold upd2 at 1. rewrite Z.eqb_refl. destruct (Z.eqb_spec x ol); [congruence|]. cbn [andb]. lia.
Qed.

Lemma in_inb l ls : inb l ls = true -> In l ls.
Proof. unfold inb. intros H. apply existsb_exists in H. destruct H as [x [Hx He]]. apply Z.eqb_eq in He. subst. exact Hx. Qed.

Lemma a_event_tot codes tick st t c0 l0 (isl : bool) c ls :
  NoDup ls -> (forall l, In l (c_lines (nth_code codes c)) -> In l ls) -> pend_in st c ls ->
  tot (a_event codes tick st t c0 l0 isl) c ls
    = tot st c ls + charge_of codes st (if isl then L t c0 0 0 l0 else R t c0 0 0 l0) c
  /\ pend_in (a_event codes tick st t c0 l0 isl) c ls.
Proof.
  intros Hnd Hls Hp. unfold a_event.
  assert (Hch : charge_of codes st (if isl then L t c0 0 0 l0 else R t c0 0 0 l0) c
                = if a_accept codes st t c0 l0 && Z.eqb c0 c
                  then match ap st t c0 with Some (_, ot) => anow st - ot | None => 0 end else 0)
    by (destruct isl; reflexivity).
  rewrite Hch. clear Hch.
  destruct (a_accept codes st t c0 l0) eqn:Ea; cbn [negb andb]; [|split; [lia|exact Hp]].
  assert (Hl0 : inb l0 (c_lines (nth_code codes c0)) = true)
    by (unfold a_accept in Ea; apply andb_true_iff in Ea; tauto).
  destruct (Z.eqb_spec c0 c) as [->|Hne].
  - assert (Hin0 : In l0 ls) by (apply Hls, in_inb, Hl0).
    assert (Hpi : forall v h1 t1 nw, (v = None \/ exists ot, v = Some (l0, ot)) ->
                  pend_in (mkas h1 t1 (updp (ap st) t c v) (areg st) (aen st) nw) c ls).
    { intros v h1 t1 nw Hv t' l ot. cbn [ap]. unfold updp. rewrite Z.eqb_refl.
      destruct (Z.eqb t' t); cbn [andb]; [|apply Hp].
      destruct Hv as [->|[ot' ->]]; [discriminate|]. intros H; injection H as <- _. exact Hin0. }
    destruct (ap st t c) as [[ol ot]|] eqn:Ep.
    + pose proof (Hp t ol ot Ep) as Hol.
      destruct isl; (split; [|apply Hpi; eauto]); unfold tot; cbn [atm];
        rewrite (sum_upd2_in (atm st) c ol (anow st - ot) ls Hnd Hol); reflexivity.
    + destruct isl; (split; [|apply Hpi; eauto]); unfold tot; cbn [atm]; lia.
  - assert (Hpi : forall v h1 t1 nw, pend_in (mkas h1 t1 (updp (ap st) t c0 v) (areg st) (aen st) nw) c ls).
    { intros v h1 t1 nw t' l ot. cbn [ap]. unfold updp. destruct (Z.eqb_spec c c0); [congruence|].
      rewrite andb_false_r. apply Hp. }
    destruct (ap st t c0) as [[ol ot]|]; destruct isl; (split; [|apply Hpi]);
      try (rewrite tot_upd2_other by exact Hne); unfold tot; cbn [atm]; lia.
Qed.

Theorem charged_is_total codes tick c ls :
  NoDup ls -> (forall l, In l (c_lines (nth_code codes c)) -> In l ls) ->
  forall ops st, pend_in st c ls ->
    tot (fold_left (a_step codes tick) ops st) c ls = tot st c ls + charged_from codes tick st ops c.
Proof.
  intros Hnd Hls. induction ops as [|o ops IH]; intros st Hp; cbn [fold_left charged_from]; [lia|].
  assert (Hstep : tot (a_step codes tick st o) c ls = tot st c ls + charge_of codes st o c
                  /\ pend_in (a_step codes tick st o) c ls).
  { destruct o; cbn [a_step charge_of].
    - destruct (inb ca (areg st) || _); (split; [unfold tot; cbn [atm]; lia|exact Hp]).
    - split; [unfold tot; cbn [atm]; lia|exact Hp].
    - split; [unfold tot; cbn [atm]; lia|]. intros t' l ot. cbn [ap]. destruct (Z.eqb t' t); [discriminate|apply Hp].
    - exact (a_event_tot codes tick st t c0 l true c ls Hnd Hls Hp).
    - exact (a_event_tot codes tick st t c0 l false c ls Hnd Hls Hp).
    - split; [unfold tot; cbn [atm]; lia|exact Hp].
    - split; [lia|exact Hp]. }
  destruct Hstep as [H1 H2]. rewrite (IH _ H2). lia.
Qed.

(* the full conservation clause, on the abstract accumulators (tied to the report by reported_time_is_abstract):
   one thread -> the times of the lines of a code object sum to at most the time the profiler was enabled *)
Theorem line_times_sum_le_enabled codes tick t0 ops c :
  clock_monotone tick ops -> single_thread t0 ops ->
  tot (a_run codes tick 0 ops) c (nodup Z.eq_dec (c_lines (nth_code codes c))) <= enabled_time codes tick t0 ops.
Proof.
  intros Hc Hs. unfold a_run.
  rewrite (charged_is_total codes tick c (nodup Z.eq_dec (c_lines (nth_code codes c)))).
  - unfold tot at 1. cbn [a_init atm].
    assert (Hz : forall ls, fold_right (fun (_ : Z) acc => 0 + acc) 0 ls = 0) by (induction ls; cbn [fold_right]; lia).
    rewrite Hz. pose proof (charged_le_enabled codes tick t0 ops c Hc Hs) as H. unfold charged in H. lia.
  - apply NoDup_nodup.
  - intros l Hl. apply nodup_In. exact Hl.
  - intros t l ot H. discriminate.
Qed.

(* ... and on what get_stats reports (hash-bucket tracer), under the executable no_collision hypothesis *)
Definition reported_total (codes : list code) (tick : Z) (ops : list op) (c : Z) : Z :=
  fold_right (fun l acc => reported_time (run codes tick 0 ops) c l + acc) 0 (nodup Z.eq_dec (c_lines (nth_code codes c))).

Theorem reported_times_sum_le_enabled codes tick t0 ops c :
  no_collision codes ops = true -> clock_monotone tick ops -> single_thread t0 ops ->
  reported_total codes tick ops c <= enabled_time codes tick t0 ops.
Proof.
  intros Hn Hc Hs. pose proof (line_times_sum_le_enabled codes tick t0 ops c Hc Hs) as H.
  unfold reported_total. unfold tot in H.
  assert (E : forall ls, fold_right (fun l acc => reported_time (run codes tick 0 ops) c l + acc) 0 ls
                       = fold_right (fun l acc => atm (a_run codes tick 0 ops) c l + acc) 0 ls).
  { induction ls as [|x xs IH]; cbn [fold_right]; [reflexivity|].
    rewrite IH, (reported_time_is_abstract codes tick ops c x Hn). reflexivity. }
  rewrite E. exact H.
Qed.

(* executable side conditions, for the shards *)
Definition single_threadb (t0 : Z) (ops : list op) : bool :=
  forallb (fun o => match op_thread o with Some t => Z.eqb t t0 | None => true end) ops.
Lemma single_threadb_sound t0 ops : single_threadb t0 ops = true -> single_thread t0 ops.
Proof.
  unfold single_threadb, single_thread. intros H o t Hi Ht. rewrite forallb_forall in H.
  specialize (H o Hi). rewrite Ht in H. apply Z.eqb_eq in H. exact H.
Qed.

(* non-vacuity: a history that meets the hypotheses of the conservation theorem, with a line dropped by disable(),
   a disabled period of 1000 ticks and clock reads that cost a tick: 10 ticks reported, 22 enabled, 1022 elapsed *)
Definition nv_ops : list op :=
  [G 0 0; E 0; L 0 0 0 0 1; A 5; L 0 0 0 0 2; A 7; D 0; A 1000; E 0; L 0 0 0 0 2; A 3; R 0 0 0 0 2; D 0].
Example conserved_nonvacuous :
  no_collision leaky_codes nv_ops = true /\ single_threadb 0 nv_ops = true
  /\ reported_total leaky_codes 1 nv_ops 0 = 10 /\ enabled_time leaky_codes 1 0 nv_ops = 22
  /\ anow (a_run leaky_codes 1 0 nv_ops) = 1022.
Proof. vm_compute. repeat split. Qed.
