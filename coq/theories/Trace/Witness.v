(* Concrete histories: non-vacuity examples and refutation witnesses for the tracer engine.
   Each is also replayed against the implementation by the harness (findings/). *)
From Coq Require Import List ZArith Bool Lia.
From LP Require Import Trace.ZMap Trace.Concrete Trace.ConcreteFacts Trace.Abstract Trace.AbstractFacts
     Trace.RefineLemmas Trace.Refine Trace.Main Trace.Spec.
Import ListNotations.
Open Scope Z_scope.

(* ---- a directly recursive function: f(1) -> f(0); lines 2 (test), 3 (recursive call), 4 (return) *)
Definition rec_codes : list code := [mkcode 0 0 0 1000 [2; 3; 4]].
Definition rec_ops : list op :=
  [G 0 0; E 0;
   L 0 0 1 0 2; L 0 0 1 0 3;            (* outer: test, then the call line *)
   L 0 0 2 0 2; A 100; L 0 0 2 0 4; R 0 0 2 0 4;     (* inner activation, 100 ticks of work *)
   L 0 0 1 0 4; R 0 0 1 0 4;            (* outer returns *)
   D 0; S].

Example rec_hits :
  no_collision rec_codes rec_ops = true
  /\ in_flight rec_codes 0 rec_ops 0 3 = 0 /\ dropped rec_codes 0 rec_ops 0 3 = 0
  /\ reported_hits (run rec_codes 0 0 rec_ops) 0 2 = 2
  /\ reported_hits (run rec_codes 0 0 rec_ops) 0 3 = 1
  /\ reported_hits (run rec_codes 0 0 rec_ops) 0 4 = 2
  /\ executed rec_codes 0 rec_ops 0 2 = 2.
Proof. vm_compute. repeat split. Qed.

(* C02: the call line (3) should be charged the callee's 100 ticks; the shared pending slot is
   closed by the callee's first line, so it is charged 0 *)
Example rec_time :
  rev (s_snaps (s_run rec_codes 0 0 rec_ops)) = [[(0, [(2, 2, 100); (3, 1, 100); (4, 2, 0)])]]
  /\ rev (snaps (run rec_codes 0 0 rec_ops)) = [[(0, [(2, 2, 100); (3, 1, 0); (4, 2, 0)])]].
Proof. vm_compute. split; reflexivity. Qed.

(* ---- an unregistered byte-identical twin at the same line numbers (another file) ------------ *)
Definition twin_codes : list code := [mkcode 0 0 0 1000 [2; 3]; mkcode 0 0 1 1000 [2; 3]].
Definition twin_ops : list op :=
  [G 0 0; E 0; L 0 1 1 0 2; L 0 1 1 0 3; R 0 1 1 0 3; D 0; S].

Example twin_crosstalk :
  ~ In 1 (reg_codes twin_ops)
  /\ executed twin_codes 0 twin_ops 0 2 = 0
  /\ reported_hits (run twin_codes 0 0 twin_ops) 0 2 = 1
  /\ no_collision twin_codes twin_ops = false.
Proof. vm_compute. repeat split. intros [H|[]]; discriminate. Qed.

(* ---- registering a function again after it ran: the data stays (labels are merged) -------------- *)
Definition rereg_codes : list code := [mkcode 0 0 0 1000 [2; 3]; mkcode 0 3 0 2000 [2; 3; -1]].
Definition rereg_ops : list op :=
  [G 0 0; E 0; L 0 0 1 0 2; L 0 0 1 0 3; R 0 0 1 0 3; D 0; S; G 0 1; S;
   E 0; L 0 1 2 0 2; L 0 1 2 0 3; R 0 1 2 0 3; D 0; S].

Example rereg_keeps_data :
  rev (snaps (run rereg_codes 0 0 rereg_ops))
  = [[(0, [(2, 1, 0); (3, 1, 0)])]; [(0, [(2, 1, 0); (3, 1, 0)])]; [(0, [(2, 2, 0); (3, 2, 0)])]]
  /\ pad_ok (run rereg_codes 0 0 rereg_ops) = true.
Proof. vm_compute. split; reflexivity. Qed.

(* ---- NOP padding can give two different functions the same bytecode ---------------------------
   five byte-identical twins f g h x y; g is registered three times.  g ends with 6 NOP pairs,
   and so does y: y's keys all exist already, y gets no entry, and y's executions land on g. *)
Definition pad_codes : list code :=
  [mkcode 0 0 0 1000 [2; 3];        (* 0: f            *)
   mkcode 0 0 1 1000 [2; 3];        (* 1: g, unpadded  *)
   mkcode 0 3 1 1003 [2; 3; -1];    (* 2: g + 3        *)
   mkcode 0 0 2 1000 [2; 3];        (* 3: h, unpadded  *)
   mkcode 0 4 2 1004 [2; 3; -1];    (* 4: h + 4        *)
   mkcode 0 6 1 1006 [2; 3; -1];    (* 5: g + 6        *)
   mkcode 0 0 3 1000 [2; 3];        (* 6: x, unpadded  *)
   mkcode 0 5 3 1005 [2; 3; -1];    (* 7: x + 5        *)
   mkcode 0 0 4 1000 [2; 3];        (* 8: y, unpadded  *)
   mkcode 0 6 4 1006 [2; 3; -1]].   (* 9: y + 6  = g's bytecode *)
Definition pad_ops : list op :=
  [G 0 0; G 1 2; G 3 4; G 2 2; G 2 5; G 6 7; G 8 9; E 0;
   L 0 9 1 0 2; L 0 9 1 0 3; R 0 9 1 0 3;       (* y runs once *)
   D 0; S].

Example padding_collision :
  pad_ok (run pad_codes 0 0 pad_ops) = true                      (* the padding rule was followed *)
  /\ c_k (nth_code pad_codes 5) = c_k (nth_code pad_codes 9)      (* g and y: same pad count *)
  /\ get (chm (run pad_codes 0 0 pad_ops)) 9 = None               (* y has no entry at all *)
  /\ reported_hits (run pad_codes 0 0 pad_ops) 5 2 = 1            (* y's execution is reported for g *)
  /\ executed pad_codes 0 pad_ops 5 2 = 0.
Proof. vm_compute. repeat split. Qed.

(* fresh twins (never re-registered) always get different pad counts: 0, 3, 4, 5, ... *)
Fixpoint reg_fresh (d : list (Z * Z * Z)) (b : Z) (n : nat) : list Z :=
  match n with
  | O => []
  | Datatypes.S n' => let '(d', k') := pad_step d b 0 in k' :: reg_fresh d' b n'
  end.

Lemma dupes_gss d b k n : dupes_get (dupes_set d b k n) b k = Some n.
Proof.
  induction d as [|[[b' k'] n'] t IH]; cbn [dupes_set dupes_get].
  - rewrite !Z.eqb_refl. reflexivity.
  - destruct (Z.eqb b' b && Z.eqb k' k) eqn:E; cbn [dupes_get]; rewrite E; [reflexivity|exact IH].
Qed.

Lemma reg_fresh_some b n : forall d m, dupes_get d b 0 = Some m -> 1 <= m ->
  forall k, In k (reg_fresh d b n) -> m + 2 <= k.
Proof.
  induction n as [|n IH]; intros d m Hd Hm k Hk; [destruct Hk|].
  cbn [reg_fresh] in Hk. unfold pad_step in Hk. rewrite Hd in Hk. cbn [In] in Hk. destruct Hk as [<-|Hk]; [lia|].
  specialize (IH (dupes_set d b 0 (m + 1)) (m + 1) (dupes_gss d b 0 (m + 1))). specialize (IH ltac:(lia) k Hk). lia.
Qed.

Lemma reg_fresh_nodup_some b n : forall d m, dupes_get d b 0 = Some m -> 1 <= m -> NoDup (reg_fresh d b n).
Proof.
  induction n as [|n IH]; intros d m Hd Hm; [constructor|].
  cbn [reg_fresh]. unfold pad_step. rewrite Hd. constructor.
  - intros Hi. pose proof (reg_fresh_some b n (dupes_set d b 0 (m + 1)) (m + 1) (dupes_gss d b 0 (m + 1)) ltac:(lia) _ Hi). lia.
  - apply (IH _ (m + 1)); [apply dupes_gss|lia].
Qed.

Theorem fresh_twins_distinct b n : NoDup (reg_fresh [] b n).
Proof.
  destruct n as [|n]; [constructor|]. cbn [reg_fresh pad_step dupes_get dupes_set]. constructor.
  - intros Hi. pose proof (reg_fresh_some b n [(b, 0, 1)] 1) as H. cbn [dupes_get] in H. rewrite !Z.eqb_refl in H.
    specialize (H eq_refl ltac:(lia) 0 Hi). lia.
  - apply (reg_fresh_nodup_some b n [(b, 0, 1)] 1); [cbn; rewrite !Z.eqb_refl; reflexivity|lia].
Qed.

(* ---- a function that switches its own profiler off loses the line in flight ------------------- *)
Definition selfdis_codes : list code := [mkcode 0 0 0 1000 [2; 3]].
Definition selfdis_ops : list op := [G 0 0; E 0; L 0 0 1 0 2; D 0; L 0 0 1 0 3; R 0 0 1 0 3; S].
Example selfdisable_drops :
  executed selfdis_codes 0 selfdis_ops 0 2 = 1 /\ dropped selfdis_codes 0 selfdis_ops 0 2 = 1
  /\ reported_hits (run selfdis_codes 0 0 selfdis_ops) 0 2 = 0.
Proof. vm_compute. repeat split. Qed.

(* ---- two interleaved instances of one generator: every line is charged its own activation's time --- *)
Definition gen_codes : list code := [mkcode 0 0 0 1000 [2; 3; 4]].
Definition gen_ops : list op :=
  [G 0 0; E 0;
   L 0 0 1 0 2; A 5; R 0 0 1 0 2;          (* instance 1 runs to its first yield *)
   L 0 0 2 0 2; A 7; R 0 0 2 0 2;          (* instance 2 likewise *)
   A 1000;                                  (* both suspended *)
   L 0 0 1 1 3; A 11; L 0 0 1 1 4; R 0 0 1 1 4;   (* instance 1 resumed (segment 1) *)
   L 0 0 2 1 3; A 13; R 0 0 2 1 3;
   D 0; S].
