(* E7 - the explicit profiler (line_profiler.explicit_profiler.GlobalProfiler).
   Hand-written vocabulary that the translated methods (Gen/GlobalProfiler.v) are
   expressed in: the state record, the profiler / callable values and the world
   (os.environ, sys.argv).  No proofs here. *)
From LP Require Import Prelude.Py.

(* A profiler object.  [Own n] is the n-th LineProfiler() this GlobalProfiler created
   itself (n counts from 1); [Ext p] is a profiler handed in from outside (kernprof's). *)
Inductive prof := Own (n : Z) | Ext (p : Z).

Definition prof_eqb (a b : prof) : bool :=
  match a, b with
  | Own n, Own m => Z.eqb n m
  | Ext p, Ext q => Z.eqb p q
  | _, _ => false
  end.

(* What a decoration returns: the very object it was given, or that object wrapped by
   a profiler ([prof.__call__(func)]).  Function objects are identified by a number. *)
Inductive callable := Fn (id : Z) | Wrapped (p : prof) (c : callable).

Fixpoint callable_eqb (a b : callable) : bool :=
  match a, b with
  | Fn i, Fn j => Z.eqb i j
  | Wrapped p c, Wrapped q d => prof_eqb p q && callable_eqb c d
  | _, _ => false
  end.

(* The part of a GlobalProfiler instance the translated methods read and write, plus
   two ghost counters that record the two external effects of [enable]:
     f_created = number of LineProfiler() constructions so far,
     f_atexit  = number of atexit.register(self.show) calls so far. *)
Record GP := mkGP {
  f_enabled : option bool;          (* self.enabled : None | True | False *)
  f_profile : option prof;          (* self._profile *)
  f_output_prefix : string;         (* self.output_prefix *)
  f_created : Z;
  f_atexit : Z
}.

Definition set_enabled (v : option bool) (s : GP) : GP :=
  mkGP v (f_profile s) (f_output_prefix s) (f_created s) (f_atexit s).
Definition set_profile (v : option prof) (s : GP) : GP :=
  mkGP (f_enabled s) v (f_output_prefix s) (f_created s) (f_atexit s).
Definition set_output_prefix (v : string) (s : GP) : GP :=
  mkGP (f_enabled s) (f_profile s) v (f_created s) (f_atexit s).

(* atexit.register(self.show) *)
Definition register_atexit (s : GP) : GP :=
  mkGP (f_enabled s) (f_profile s) (f_output_prefix s) (f_created s) (f_atexit s + 1).
(* LineProfiler(): the construction is counted, the new object is [Own (f_created s')] *)
Definition count_created (s : GP) : GP :=
  mkGP (f_enabled s) (f_profile s) (f_output_prefix s) (f_created s + 1) (f_atexit s).

(* os.environ.get(f, '') *)
Definition environ_get (environ : string -> option string) (f : string) : string :=
  match environ f with Some v => v | None => "" end.

(* self._profile(func): calling None raises TypeError *)
Definition call_profile (s : GP) (func : callable) : res (callable * GP) :=
  match f_profile s with
  | Some p => Ok (Wrapped p func, s)
  | None => Err TypeError
  end.
