(* Proofs of the C14 statements (Props/C14.v only restates them). *)
From LP Require Import Prelude.Py Explicit.Base Gen.GlobalProfiler Explicit.GlobalProfiler.

Lemma str_in_In x l : str_in x l = true <-> In x l.
Proof.
  unfold str_in. rewrite existsb_exists. split.
  - intros [y [Hy E]]. apply String.eqb_eq in E. subst. exact Hy.
  - intros H. exists x. split; [exact H|apply String.eqb_refl].
Qed.

Lemma requestedb_spec v argv : requestedb v argv = true <-> requested v argv.
Proof.
  unfold requestedb, requested. rewrite !orb_true_iff, negb_true_iff, <- !str_in_In.
  destruct (str_in (lower (env_text v)) spec_falsy); intuition congruence.
Qed.

Lemma requestedb_false v argv : requestedb v argv = false <-> ~ requested v argv.
Proof. rewrite <- requestedb_spec. destruct (requestedb v argv); intuition congruence. Qed.

(* ---- the decision -------------------------------------------------------------- *)
Theorem decision (environ : string -> option string) (argv : list string) (f : callable) :
  exists c s',
    decorate gp_init environ argv f = Ok (c, s')
    /\ (f_enabled s' = Some true <-> requested (environ "LINE_PROFILE") argv)
    /\ (f_enabled s' = Some true \/ f_enabled s' = Some false).
Proof.
  rewrite decorate_eq. unfold decide_st, gp_init. cbn [f_enabled].
  destruct (requestedb (environ "LINE_PROFILE") argv) eqn:Q.
  - apply requestedb_spec in Q.
    unfold enable_st, call_profile. cbn. eexists _, _. split; [reflexivity|]. cbn. intuition.
  - apply requestedb_false in Q.
    cbn. eexists _, _. split; [reflexivity|]. cbn. intuition congruence.
Qed.

(* the same for the environment in which only LINE_PROFILE is (or is not) set *)
Corollary decision_var (v : option string) (argv : list string) (f : callable) :
  exists c s',
    decorate gp_init (environ_of v) argv f = Ok (c, s')
    /\ (f_enabled s' = Some true <-> requested v argv).
Proof.
  destruct (decision (environ_of v) argv f) as (c & s' & A & B & _).
  exists c, s'. split; [exact A|exact B].
Qed.

(* ---- spec-level facts ------------------------------------------------------------ *)
Lemma spec_obs_off_decorations req P st fs :
  spec_on req st = false -> spec_obs req P st (map OpDecorate fs) = map ObsRet fs.
Proof.
  revert st. induction fs as [|f fs IH]; intros st H; [reflexivity|].
  cbn [map spec_obs spec_ans spec_next]. rewrite H. f_equal. apply IH. reflexivity.
Qed.

Lemma spec_active_off_decorations req st fs :
  spec_on req st = false -> spec_active req st (map OpDecorate fs) = false.
Proof.
  revert st. induction fs as [|f fs IH]; intros st H; [reflexivity|].
  cbn [map spec_active spec_fire spec_next]. rewrite H, IH by reflexivity.
  destruct st as [b|]; [reflexivity|]. cbn in H. rewrite H. reflexivity.
Qed.

Lemma spec_prefix_decorations cur fs : spec_prefix cur (map OpDecorate fs) = cur.
Proof. induction fs as [|f fs IH]; [reflexivity|exact IH]. Qed.

Definition spec_state (req : bool) (st : option bool) (ops : list op) : option bool :=
  fold_left (spec_next req) ops st.

Lemma spec_obs_app req P st a b :
  spec_obs req P st (a ++ b) = spec_obs req P st a ++ spec_obs req P (spec_state req st a) b.
Proof.
  revert st. induction a as [|o a IH]; intros st; [reflexivity|].
  cbn [app spec_obs]. rewrite IH. reflexivity.
Qed.

Lemma spec_active_app req st a b :
  spec_active req st (a ++ b) = spec_active req st a || spec_active req (spec_state req st a) b.
Proof.
  revert st. induction a as [|o a IH]; intros st; [reflexivity|].
  cbn [app spec_active]. rewrite IH, orb_assoc. reflexivity.
Qed.

Lemma spec_prefix_app cur a b : spec_prefix cur (a ++ b) = spec_prefix (spec_prefix cur a) b.
Proof. revert cur. induction a as [|o a IH]; intros cur; [reflexivity|]. cbn [app spec_prefix]. apply IH. Qed.

Lemma user_history_app a b : user_history (a ++ b) = user_history a && user_history b.
Proof. unfold user_history. apply forallb_app. Qed.

Lemma user_history_decorations fs : user_history (map OpDecorate fs) = true.
Proof. induction fs; [reflexivity|exact IHfs]. Qed.

(* ---- histories from a fresh GlobalProfiler ----------------------------------------- *)
Section Fresh.
  Variable environ : string -> option string.
  Variable argv : list string.
  Let req := requestedb (environ "LINE_PROFILE") argv.

  Lemma fresh ops :
    user_history ops = true ->
    let act := spec_active req None ops in
    let s' := snd (run environ argv gp_init ops) in
    fst (run environ argv gp_init ops) = spec_obs req (Own 1) None ops
    /\ f_profile s' = (if act then Some (Own 1) else None)
    /\ f_created s' = bz act
    /\ f_atexit s' = bz act
    /\ f_output_prefix s' = spec_prefix init_output_prefix ops.
  Proof.
    intros Hu.
    assert (Hn : f_enabled gp_init <> Some true) by (cbn; discriminate).
    exact (run_dormant environ argv ops gp_init eq_refl Hn Hu).
  Qed.

  Theorem history ops :
    user_history ops = true ->
    fst (run environ argv gp_init ops) = spec_obs req (Own 1) None ops.
  Proof. intros Hu. apply (fresh ops Hu). Qed.

  Theorem single ops :
    user_history ops = true ->
    let s' := snd (run environ argv gp_init ops) in
    let act := spec_active req None ops in
    f_created s' = (if act then 1 else 0)
    /\ f_atexit s' = (if act then 1 else 0)
    /\ f_profile s' = (if act then Some (Own 1) else None)
    /\ 0 <= f_created s' <= 1 /\ 0 <= f_atexit s' <= 1.
  Proof.
    intros Hu. destruct (fresh ops Hu) as (_ & B & C & D & _). cbn zeta in *.
    rewrite B, C, D. destruct (spec_active req None ops); cbn; repeat split; lia.
  Qed.

  Theorem inert fs wc ts :
    ~ requested (environ "LINE_PROFILE") argv ->
    let r := run environ argv gp_init (map OpDecorate fs) in
    fst r = map ObsRet fs
    /\ f_created (snd r) = 0 /\ f_atexit (snd r) = 0 /\ f_profile (snd r) = None
    /\ at_exit (snd r) wc ts = [].
  Proof.
    intros Hreq. apply requestedb_false in Hreq. fold req in Hreq.
    destruct (fresh (map OpDecorate fs) (user_history_decorations fs)) as (A & B & C & D & _).
    cbn zeta in *.
    rewrite spec_active_off_decorations in B, C, D by exact Hreq.
    rewrite spec_obs_off_decorations in A by exact Hreq.
    repeat split; try assumption. unfold at_exit. rewrite D. reflexivity.
  Qed.

  (* after disable(), whatever happened before, decorating is a no-op again *)
  Theorem disable_inert ops fs :
    user_history ops = true ->
    let before := run environ argv gp_init ops in
    let after := run environ argv gp_init (ops ++ OpDisable :: map OpDecorate fs) in
    fst after = fst before ++ ObsUnit :: map ObsRet fs
    /\ f_created (snd after) = f_created (snd before)
    /\ f_atexit (snd after) = f_atexit (snd before)
    /\ f_profile (snd after) = f_profile (snd before).
  Proof.
    intros Hu.
    assert (Hu2 : user_history (ops ++ OpDisable :: map OpDecorate fs) = true).
    { rewrite user_history_app, Hu. cbn. apply user_history_decorations. }
    destruct (fresh ops Hu) as (A & B & C & D & _).
    destruct (fresh _ Hu2) as (A2 & B2 & C2 & D2 & _).
    cbn zeta in *.
    assert (Hact : spec_active req None (ops ++ OpDisable :: map OpDecorate fs) = spec_active req None ops).
    { rewrite spec_active_app. cbn [spec_active spec_fire spec_next orb].
      rewrite spec_active_off_decorations by reflexivity. apply orb_false_r. }
    rewrite Hact in B2, C2, D2.
    rewrite A2, A, B2, B, C2, C, D2, D. repeat split.
    rewrite spec_obs_app. cbn [spec_obs spec_ans spec_next].
    rewrite spec_obs_off_decorations by reflexivity. reflexivity.
  Qed.

  (* at interpreter exit *)
  Theorem outputs_exact ops wc ts :
    user_history ops = true ->
    let s' := snd (run environ argv gp_init ops) in
    let prefix := spec_prefix init_output_prefix ops in
    at_exit s' wc ts
    = (if spec_active req None ops then [Ok (expected_outputs wc prefix ts)] else []).
  Proof.
    intros Hu. destruct (fresh ops Hu) as (_ & B & _ & D & E). cbn zeta in *.
    unfold at_exit. rewrite D.
    destruct (spec_active req None ops).
    - cbn [bz]. change (Z.to_nat 1) with 1%nat. cbn [repeat].
      rewrite (show_exact _ wc ts (Own 1) B), E. reflexivity.
    - reflexivity.
  Qed.
End Fresh.

(* what "exactly the outputs that are switched on, once, under the configured prefix" means *)
Theorem expected_outputs_exact wc prefix ts :
  (forall k, In k (map fst (expected_outputs wc prefix ts)) <-> switched_on wc k = true)
  /\ NoDup (map fst (expected_outputs wc prefix ts))
  /\ (forall k t, In (k, t) (expected_outputs wc prefix ts) -> t = target prefix ts k)
  /\ (forall k1 k2 n, target prefix ts k1 = Some n -> target prefix ts k2 = Some n -> k1 = k2)
  /\ (forall k n, target prefix ts k = Some n -> String.prefix prefix n = true).
Proof.
  split; [apply expected_kind_iff|]. split; [apply expected_kinds_nodup|].
  split; [apply expected_targets|]. split; [apply target_inj|apply target_under_prefix].
Qed.

(* ---- kernprof hand-over ------------------------------------------------------------ *)
Theorem handoff (environ : string -> option string) (argv : list string) (s : GP) (p : Z) (ops : list op) :
  user_history ops = true ->
  let s0 := snd (step environ argv s (OpOverwrite (Some (Ext p)))) in
  let r := run environ argv s0 ops in
  fst r = spec_obs (requestedb (environ "LINE_PROFILE") argv) (Ext p) (Some true) ops
  /\ f_profile (snd r) = Some (Ext p)
  /\ f_created (snd r) = f_created s
  /\ f_atexit (snd r) = f_atexit s.
Proof.
  intros Hu. cbn [step]. rewrite overwrite_eq. cbn [snd].
  set (s0 := set_enabled _ _).
  destruct (run_active environ argv ops s0 (Ext p) eq_refl Hu) as (A & B & C & D & _).
  cbn zeta. rewrite A, B, C, D. destruct s; repeat split; reflexivity.
Qed.

(* in particular the very next decoration goes to kernprof's profiler *)
Corollary handoff_next environ argv s p f :
  decorate (snd (step environ argv s (OpOverwrite (Some (Ext p))))) environ argv f
  = Ok (Wrapped (Ext p) f, snd (step environ argv s (OpOverwrite (Some (Ext p))))).
Proof. destruct s. reflexivity. Qed.

(* ---- non-vacuity ------------------------------------------------------------------- *)
Example nonvacuous :
  requestedb (Some "OFF") ["prog"] = false
  /\ requestedb (Some "No") ["prog"] = false
  /\ requestedb (Some "1") ["prog"] = true
  /\ requestedb (Some "false ") ["prog"] = true
  /\ requestedb None ["prog"; "--line_profile"] = true
  /\ requestedb None ["prog"; "--line-profile=1"] = false
  /\ ~ requested (Some "FALSE") ["prog"; "x"]
  /\ run (environ_of (Some "yes")) ["prog"] gp_init
         [OpDecorate (Fn 1); OpDisable; OpDecorate (Fn 2); OpEnable (Some "p"); OpDecorate (Fn 3)]
     = ([ObsRet (Wrapped (Own 1) (Fn 1)); ObsUnit; ObsRet (Fn 2); ObsUnit; ObsRet (Wrapped (Own 1) (Fn 3))],
        mkGP (Some true) (Some (Own 1)) "p" 1 1)
  /\ user_history [OpDecorate (Fn 1); OpDisable; OpDecorate (Fn 2); OpEnable (Some "p"); OpDecorate (Fn 3)] = true
  /\ at_exit (mkGP (Some true) (Some (Own 1)) "p" 1 1) (mkWC true false true false) "T"
     = [Ok [(KTimestamped, Some "p_T.txt"); (KLprof, Some "p.lprof")]].
Proof.
  repeat split; try (vm_compute; reflexivity).
  apply requestedb_false. vm_compute. reflexivity.
Qed.
