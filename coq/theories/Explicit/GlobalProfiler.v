(* E7 - the explicit profiler: histories over the translated methods, the
   specification automaton read off the property text, and the proofs for C14.
   The methods themselves (enable, disable, implicit_setup, decorate,
   kernprof_overwrite) and the constants are in Gen/GlobalProfiler.v, regenerated from
   line_profiler/explicit_profiler.py on every run. *)
From LP Require Import Prelude.Py Explicit.Base Gen.GlobalProfiler.

(* ---- histories -------------------------------------------------------------- *)
Inductive op :=
| OpEnable (prefix : option string)      (* profile.enable(output_prefix=prefix) *)
| OpDisable                              (* profile.disable() *)
| OpDecorate (f : callable)              (* profile(f) *)
| OpOverwrite (p : option prof).         (* profile._kernprof_overwrite(p)  (kernprof only) *)

Inductive obs := ObsUnit | ObsRet (c : callable) | ObsErr (e : exn).

Definition is_overwrite (o : op) : bool := match o with OpOverwrite _ => true | _ => false end.
(* histories made of enable / disable / decorate calls only: the quantifier of C14 *)
Definition user_history (ops : list op) : bool := forallb (fun o => negb (is_overwrite o)) ops.

(* ---- the specification, read off the property text ---------------------------- *)
(* "set to something other than an empty/0/off/false/no value (any letter case)" *)
Definition spec_falsy : list string := [""; "0"; "off"; "false"; "no"].
Definition env_text (v : option string) : string := match v with Some x => x | None => "" end.

Definition requested (v : option string) (argv : list string) : Prop :=
  ~ In (lower (env_text v)) spec_falsy \/ In "--line-profile" argv \/ In "--line_profile" argv.

Definition requestedb (v : option string) (argv : list string) : bool :=
  negb (str_in (lower (env_text v)) spec_falsy) || str_in "--line-profile" argv || str_in "--line_profile" argv.

(* the environment in which only LINE_PROFILE is (possibly) set *)
Definition environ_of (v : option string) : string -> option string :=
  fun k => if String.eqb k "LINE_PROFILE" then v else None.

(* The specification automaton.  Its state is the tri-state decision [st]; [req] says
   whether profiling was requested through the environment / command line; P is the one
   profiler in use. *)
Definition spec_on (req : bool) (st : option bool) : bool := match st with Some b => b | None => req end.

Definition spec_next (req : bool) (st : option bool) (o : op) : option bool :=
  match o with
  | OpEnable _ => Some true
  | OpDisable => Some false
  | OpDecorate _ => Some (spec_on req st)      (* an undecided decorator decides now *)
  | OpOverwrite _ => Some true
  end.

(* what the call must answer: a decoration wraps iff the state is enabled at that moment *)
Definition spec_ans (req : bool) (P : prof) (st : option bool) (o : op) : obs :=
  match o with
  | OpDecorate f => ObsRet (if spec_on req st then Wrapped P f else f)
  | _ => ObsUnit
  end.

Fixpoint spec_obs (req : bool) (P : prof) (st : option bool) (ops : list op) : list obs :=
  match ops with
  | [] => []
  | o :: t => spec_ans req P st o :: spec_obs req P (spec_next req st o) t
  end.

(* does this call switch profiling on? *)
Definition spec_fire (req : bool) (st : option bool) (o : op) : bool :=
  match o with
  | OpEnable _ => true
  | OpDecorate _ => match st with None => req | Some _ => false end
  | _ => false
  end.

(* did the history ever switch profiling on? *)
Fixpoint spec_active (req : bool) (st : option bool) (ops : list op) : bool :=
  match ops with
  | [] => false
  | o :: t => spec_fire req st o || spec_active req (spec_next req st o) t
  end.

(* the configured prefix: the last enable(output_prefix=p) with p given *)
Definition spec_prefix1 (cur : string) (o : op) : string :=
  match o with OpEnable (Some p) => p | _ => cur end.
Fixpoint spec_prefix (cur : string) (ops : list op) : string :=
  match ops with
  | [] => cur
  | o :: t => spec_prefix (spec_prefix1 cur o) t
  end.

(* ---- running a history on the translated methods ------------------------------- *)
Section World.
  Variable environ : string -> option string.
  Variable argv : list string.

  (* an operation that raises leaves the object as it was: justified by
     [decorate_err_untouched] below (the only raise happens before any update) *)
  Definition step (s : GP) (o : op) : obs * GP :=
    match o with
    | OpEnable pre => match enable s pre with Ok (_, s') => (ObsUnit, s') | Err e => (ObsErr e, s) end
    | OpDisable => match disable s with Ok (_, s') => (ObsUnit, s') | Err e => (ObsErr e, s) end
    | OpDecorate f => match decorate s environ argv f with Ok (c, s') => (ObsRet c, s') | Err e => (ObsErr e, s) end
    | OpOverwrite p => match kernprof_overwrite s p with Ok (_, s') => (ObsUnit, s') | Err e => (ObsErr e, s) end
    end.

  Fixpoint run (s : GP) (ops : list op) : list obs * GP :=
    match ops with
    | [] => ([], s)
    | o :: t => let '(b, s1) := step s o in let '(bs, s2) := run s1 t in (b :: bs, s2)
    end.

  Let v := environ "LINE_PROFILE".
  Let req := requestedb v argv.

  (* ---- closed forms of the translated methods ---------------------------------- *)
  Definition enable_st (s : GP) (pre : option string) : GP :=
    let s1 := match f_profile s with
              | None => set_profile (Some (Own (f_created s + 1))) (count_created (register_atexit s))
              | Some _ => s
              end in
    let s2 := set_enabled (Some true) s1 in
    match pre with None => s2 | Some p => set_output_prefix p s2 end.

  Lemma enable_eq s pre : enable s pre = Ok (tt, enable_st s pre).
  Proof. destruct s as [e p o c a]. unfold enable, enable_st. destruct p, pre; reflexivity. Qed.

  Lemma disable_eq s : disable s = Ok (tt, set_enabled (Some false) s).
  Proof. reflexivity. Qed.

  Lemma overwrite_eq s p : kernprof_overwrite s p = Ok (tt, set_enabled (Some true) (set_profile p s)).
  Proof. reflexivity. Qed.

  Lemma falsy_same x : py_in String.eqb x FALSY_STRINGS = str_in x spec_falsy.
  Proof.
    unfold py_in, str_in, FALSY_STRINGS, spec_falsy. cbn [existsb].
    destruct (String.eqb x ""), (String.eqb x "0"), (String.eqb x "off"),
             (String.eqb x "false"), (String.eqb x "no"); reflexivity.
  Qed.

  Lemma implicit_setup_eq s :
    implicit_setup s environ argv
    = Ok (tt, if req then enable_st s None else set_enabled (Some false) s).
  Proof.
    assert (Hreq : req = negb (py_in String.eqb (lower (environ_get environ "LINE_PROFILE")) FALSY_STRINGS) || false
             || (py_in String.eqb "--line-profile" argv || (py_in String.eqb "--line_profile" argv || false))).
    { unfold req, requestedb, v, env_text, environ_get. rewrite falsy_same.
      unfold py_in, str_in. rewrite !orb_false_r. rewrite orb_assoc. reflexivity. }
    unfold implicit_setup, cfg_environ_flags, cfg_cli_flags. cbn [existsb].
    rewrite <- Hreq.
    destruct req; [rewrite enable_eq|rewrite disable_eq]; reflexivity.
  Qed.

  (* the decision a decoration forces when none was taken yet *)
  Definition decide_st (s : GP) : GP :=
    match f_enabled s with
    | None => if req then enable_st s None else set_enabled (Some false) s
    | Some _ => s
    end.

  Lemma decorate_eq s f :
    decorate s environ argv f
    = match f_enabled (decide_st s) with
      | Some true => call_profile (decide_st s) f
      | _ => Ok (f, decide_st s)
      end.
  Proof.
    unfold decorate, decide_st. destruct (f_enabled s) as [[|]|] eqn:E.
    - rewrite E. reflexivity.
    - rewrite E. reflexivity.
    - rewrite implicit_setup_eq.
      destruct req; destruct s as [e p o c a]; cbn in E; subst e; unfold enable_st; destruct p; reflexivity.
  Qed.

  (* a decoration that raises has not touched the object *)
  Lemma decorate_err_untouched s f e :
    decorate s environ argv f = Err e -> f_enabled s = Some true /\ f_profile s = None /\ e = TypeError.
  Proof.
    rewrite decorate_eq. unfold decide_st.
    destruct s as [en p o c a]. cbn [f_enabled f_profile].
    destruct en as [[|]|].
    - cbn [f_enabled]. unfold call_profile. cbn [f_profile]. destruct p; [discriminate|].
      intros H; inversion H; auto.
    - cbn [f_enabled]. discriminate.
    - destruct req; unfold enable_st, call_profile; cbn [f_profile]; destruct p; cbn; discriminate.
  Qed.

  (* ---- one call, while a profiler exists ------------------------------------------ *)
  Lemma step_active s P o :
    f_profile s = Some P -> is_overwrite o = false ->
    fst (step s o) = spec_ans req P (f_enabled s) o
    /\ f_enabled (snd (step s o)) = spec_next req (f_enabled s) o
    /\ f_profile (snd (step s o)) = Some P
    /\ f_created (snd (step s o)) = f_created s
    /\ f_atexit (snd (step s o)) = f_atexit s
    /\ f_output_prefix (snd (step s o)) = spec_prefix1 (f_output_prefix s) o.
  Proof.
    intros HP Ho. destruct s as [en p pre c a]. cbn [f_profile] in HP. subst p.
    destruct o as [pfx| |f|q]; [| | |discriminate]; cbn [step].
    - rewrite enable_eq. unfold enable_st. destruct pfx; cbn; repeat split; reflexivity.
    - rewrite disable_eq. cbn. repeat split; reflexivity.
    - rewrite decorate_eq. unfold decide_st, call_profile. cbn [f_enabled].
      destruct en as [[|]|]; [| |destruct req eqn:Q]; cbn; repeat split; reflexivity.
  Qed.

  Definition bz (b : bool) : Z := if b then 1 else 0.

  (* ---- one call, while no profiler exists and the state is not enabled ------------- *)
  Lemma step_dormant s o :
    f_profile s = None -> f_enabled s <> Some true -> is_overwrite o = false ->
    let P := Own (f_created s + 1) in
    let fire := spec_fire req (f_enabled s) o in
    fst (step s o) = spec_ans req P (f_enabled s) o
    /\ f_enabled (snd (step s o)) = spec_next req (f_enabled s) o
    /\ f_profile (snd (step s o)) = (if fire then Some P else None)
    /\ f_created (snd (step s o)) = f_created s + bz fire
    /\ f_atexit (snd (step s o)) = f_atexit s + bz fire
    /\ f_output_prefix (snd (step s o)) = spec_prefix1 (f_output_prefix s) o.
  Proof.
    intros HP Hen Ho. destruct s as [en p pre c a]. cbn [f_profile] in HP. subst p.
    cbn [f_enabled] in Hen.
    destruct o as [pfx| |f|q]; [| | |discriminate]; cbn [step].
    - rewrite enable_eq. unfold enable_st. destruct pfx; cbn; repeat split; reflexivity.
    - rewrite disable_eq. cbn. rewrite !Z.add_0_r. repeat split; reflexivity.
    - rewrite decorate_eq. unfold decide_st, call_profile. cbn [f_enabled].
      destruct en as [[|]|]; [congruence| |destruct req eqn:Q]; cbn; rewrite ?Z.add_0_r; repeat split; reflexivity.
  Qed.

  Lemma run_cons s o t :
    run s (o :: t) = (fst (step s o) :: fst (run (snd (step s o)) t), snd (run (snd (step s o)) t)).
  Proof. cbn [run]. destruct (step s o) as [b s1]. cbn [fst snd]. destruct (run s1 t). reflexivity. Qed.

  (* ---- phase 2: a profiler exists ----------------------------------------------- *)
  Lemma run_active ops : forall s P,
    f_profile s = Some P -> user_history ops = true ->
    fst (run s ops) = spec_obs req P (f_enabled s) ops
    /\ f_profile (snd (run s ops)) = Some P
    /\ f_created (snd (run s ops)) = f_created s
    /\ f_atexit (snd (run s ops)) = f_atexit s
    /\ f_output_prefix (snd (run s ops)) = spec_prefix (f_output_prefix s) ops.
  Proof.
    induction ops as [|o t IH]; intros s P HP Hu.
    - cbn. auto.
    - cbn [user_history forallb] in Hu. apply andb_prop in Hu as [Ho Ht].
      apply negb_true_iff in Ho.
      destruct (step_active s P o HP Ho) as (A & B & C & D & E & F).
      destruct (IH (snd (step s o)) P C Ht) as (A' & B' & C' & D' & E').
      rewrite run_cons. cbn [fst snd spec_obs spec_prefix].
      rewrite A, A', B, B', C', D', E', D, E, F. auto.
  Qed.

  (* ---- phase 1: no profiler yet, not enabled ------------------------------------- *)
  Lemma run_dormant ops : forall s,
    f_profile s = None -> f_enabled s <> Some true -> user_history ops = true ->
    let P := Own (f_created s + 1) in
    let act := spec_active req (f_enabled s) ops in
    fst (run s ops) = spec_obs req P (f_enabled s) ops
    /\ f_profile (snd (run s ops)) = (if act then Some P else None)
    /\ f_created (snd (run s ops)) = f_created s + bz act
    /\ f_atexit (snd (run s ops)) = f_atexit s + bz act
    /\ f_output_prefix (snd (run s ops)) = spec_prefix (f_output_prefix s) ops.
  Proof.
    induction ops as [|o t IH]; intros s HP Hen Hu P act.
    - cbn. unfold act. cbn. rewrite !Z.add_0_r. auto.
    - cbn [user_history forallb] in Hu. apply andb_prop in Hu as [Ho Ht].
      apply negb_true_iff in Ho.
      destruct (step_dormant s o HP Hen Ho) as (A & B & C & D & E & F).
      fold P in A, C.
      rewrite run_cons. cbn [fst snd spec_obs spec_prefix]. unfold act. cbn [spec_active].
      destruct (spec_fire req (f_enabled s) o) eqn:Fire.
      + (* the profiler is created by this call; the rest runs in phase 2 *)
        destruct (run_active t (snd (step s o)) P C Ht) as (A' & B' & C' & D' & E').
        cbn [orb bz] in *. rewrite A, A', B, B', C', D', E', D, E, F. auto.
      + assert (Hn : f_enabled (snd (step s o)) <> Some true).
        { rewrite B. destruct o as [pfx| |f|q]; cbn in Fire |- *; try discriminate.
          destruct (f_enabled s) as [[|]|]; cbn; congruence. }
        destruct (IH (snd (step s o)) C Hn Ht) as (A' & B' & C' & D' & E').
        cbn [orb bz] in *. rewrite Z.add_0_r in D, E. rewrite D in A', B', C'. rewrite E in D'.
        fold P in A', B'. rewrite B in A', B', C', D'. rewrite F in E'.
        rewrite A, A', B', C', D', E'. auto.
  Qed.
End World.

(* ---- the at-exit output (show), modelled by hand -------------------------------- *)
Record write_config := mkWC { w_lprof : bool; w_text : bool; w_timestamped : bool; w_stdout : bool }.

Inductive okind := KStdout | KText | KTimestamped | KLprof.
Definition all_kinds : list okind := [KStdout; KText; KTimestamped; KLprof].
Definition okind_code (k : okind) : Z :=
  match k with KStdout => 0 | KText => 1 | KTimestamped => 2 | KLprof => 3 end.

Definition switched_on (wc : write_config) (k : okind) : bool :=
  match k with
  | KStdout => w_stdout wc | KText => w_text wc | KTimestamped => w_timestamped wc | KLprof => w_lprof wc
  end.

(* where an output goes: None = the process's stdout, Some name = that file *)
Definition target (prefix ts : string) (k : okind) : option string :=
  match k with
  | KStdout => None
  | KText => Some (prefix ++ ".txt")%string
  | KTimestamped => Some (prefix ++ "_" ++ ts ++ ".txt")%string
  | KLprof => Some (prefix ++ ".lprof")%string
  end.

Definition emitted := list (okind * option string).

(* GlobalProfiler.show(), statement by statement; [ts] is the strftime stamp;
   self._profile.<anything> on None raises (AttributeError, here OtherError) *)
Definition show (s : GP) (wc : write_config) (ts : string) : res emitted :=
  let prefix := f_output_prefix s in
  let need_profile (k : emitted -> res emitted) (out : emitted) : res emitted :=
      match f_profile s with Some _ => k out | None => Err OtherError end in
  let step_lprof (out : emitted) : res emitted :=
      if w_lprof wc then need_profile (fun out => Ok (out ++ [(KLprof, target prefix ts KLprof)])) out
      else Ok out in
  let step_text (out : emitted) : res emitted :=
      if w_text wc || w_timestamped wc then
        need_profile (fun out =>
          let out := if w_text wc then out ++ [(KText, target prefix ts KText)] else out in
          let out := if w_timestamped wc then out ++ [(KTimestamped, target prefix ts KTimestamped)] else out in
          step_lprof out) out
      else step_lprof out in
  if w_stdout wc then need_profile (fun out => step_text (out ++ [(KStdout, None)])) []
  else step_text [].

(* interpreter exit: every registered hook runs once *)
Definition at_exit (s : GP) (wc : write_config) (ts : string) : list (res emitted) :=
  repeat (show s wc ts) (Z.to_nat (f_atexit s)).

(* the outputs the property demands *)
Definition expected_outputs (wc : write_config) (prefix ts : string) : emitted :=
  map (fun k => (k, target prefix ts k)) (filter (switched_on wc) all_kinds).

Lemma show_exact s wc ts P :
  f_profile s = Some P -> show s wc ts = Ok (expected_outputs wc (f_output_prefix s) ts).
Proof.
  intros HP. unfold show, expected_outputs, all_kinds. rewrite HP.
  destruct wc as [l t m o]. cbn [w_lprof w_text w_timestamped w_stdout filter switched_on].
  destruct l, t, m, o; reflexivity.
Qed.

Lemma show_nothing_when_all_off s ts : show s (mkWC false false false false) ts = Ok [].
Proof. reflexivity. Qed.

(* ---- facts about expected_outputs: exactly the switched-on kinds, once, under the prefix *)
Lemma expected_kinds wc prefix ts :
  map fst (expected_outputs wc prefix ts) = filter (switched_on wc) all_kinds.
Proof. unfold expected_outputs. rewrite map_map. cbn [fst]. apply map_id. Qed.

Lemma expected_kind_iff wc prefix ts k :
  In k (map fst (expected_outputs wc prefix ts)) <-> switched_on wc k = true.
Proof.
  rewrite expected_kinds, filter_In. split; [tauto|]. intros H. split; [|exact H].
  destruct k; cbn; auto.
Qed.

Lemma expected_kinds_nodup wc prefix ts : NoDup (map fst (expected_outputs wc prefix ts)).
Proof.
  rewrite expected_kinds. apply NoDup_filter. unfold all_kinds.
  repeat constructor; cbn; intuition discriminate.
Qed.

Lemma expected_targets wc prefix ts k t :
  In (k, t) (expected_outputs wc prefix ts) -> t = target prefix ts k.
Proof.
  unfold expected_outputs. rewrite in_map_iff. intros [k' [E _]]. inversion E; subst. reflexivity.
Qed.

Lemma append_cancel_l (p a b : string) : (p ++ a = p ++ b)%string -> a = b.
Proof. induction p as [|c p IH]; cbn; [auto|]. intros H. inversion H. auto. Qed.

Lemma prefix_append (p a : string) : String.prefix p (p ++ a) = true.
Proof.
  induction p as [|c p IH]; cbn; [destruct a; reflexivity|].
  destruct (ascii_dec c c); [exact IH|congruence].
Qed.

(* the three file names are pairwise different and all start with the prefix *)
Lemma target_inj prefix ts k1 k2 n :
  target prefix ts k1 = Some n -> target prefix ts k2 = Some n -> k1 = k2.
Proof.
  destruct k1, k2; cbn; intros H1 H2; try discriminate; try reflexivity;
    rewrite <- H2 in H1; inversion H1 as [H]; apply append_cancel_l in H; discriminate.
Qed.

Lemma target_under_prefix prefix ts k n :
  target prefix ts k = Some n -> String.prefix prefix n = true.
Proof. destruct k; cbn; intros H; inversion H; apply prefix_append. Qed.

(* ---- executable comparison used by the case shards ------------------------------ *)
Definition obs_eqb (a b : obs) : bool :=
  match a, b with
  | ObsUnit, ObsUnit => true
  | ObsRet c, ObsRet d => callable_eqb c d
  | ObsErr e, ObsErr f => Z.eqb (exn_code e) (exn_code f)
  | _, _ => false
  end.

Definition oprof_eqb := opt_eqb prof_eqb.
Definition obool_eqb := opt_eqb Bool.eqb.

(* what the harness observes of a GlobalProfiler after a history *)
Record observed := mkObserved {
  o_obs : list obs;                 (* answer of every call *)
  o_enabled : option bool;
  o_profile : option prof;
  o_prefix : string;
  o_created : Z;                    (* LineProfiler() constructions seen *)
  o_atexit : Z                      (* atexit.register calls seen *)
}.

(* correspondence: the translated methods, run on the history, give what was observed *)
Definition history_model_ok (v : option string) (argv : list string) (ops : list op) (o : observed) : bool :=
  let '(bs, s) := run (environ_of v) argv gp_init ops in
  list_eqb obs_eqb bs (o_obs o) && obool_eqb (f_enabled s) (o_enabled o)
  && oprof_eqb (f_profile s) (o_profile o) && String.eqb (f_output_prefix s) (o_prefix o)
  && Z.eqb (f_created s) (o_created o) && Z.eqb (f_atexit s) (o_atexit o).

(* the property on the implementation's own observations (user histories) *)
Definition history_spec_ok (v : option string) (argv : list string) (ops : list op) (o : observed) : bool :=
  let req := requestedb v argv in
  let act := spec_active req None ops in
  list_eqb obs_eqb (spec_obs req (Own 1) None ops) (o_obs o)
  && Z.eqb (o_created o) (if act then 1 else 0)
  && Z.eqb (o_atexit o) (if act then 1 else 0)
  && oprof_eqb (o_profile o) (if act then Some (Own 1) else None)
  && String.eqb (o_prefix o) (spec_prefix init_output_prefix ops).

(* kernprof hand-over: the history starts with _kernprof_overwrite(Some (Ext p)) *)
Definition handoff_spec_ok (v : option string) (argv : list string) (p : Z) (ops : list op) (o : observed) : bool :=
  let req := requestedb v argv in
  list_eqb obs_eqb (ObsUnit :: spec_obs req (Ext p) (Some true) ops) (o_obs o)
  && Z.eqb (o_created o) 0 && Z.eqb (o_atexit o) 0 && oprof_eqb (o_profile o) (Some (Ext p)).

Definition emitted_eqb (a b : list (Z * option string)) : bool :=
  list_eqb (fun x y => Z.eqb (fst x) (fst y) && opt_eqb String.eqb (snd x) (snd y)) a b.
Definition emitted_codes (e : emitted) : list (Z * option string) := map (fun x => (okind_code (fst x), snd x)) e.

(* show(): model against the observed outputs (kind code, file name), sorted by kind *)
Definition show_model_ok (prefix ts : string) (wc : write_config) (seen : list (Z * option string)) : bool :=
  match show (mkGP (Some true) (Some (Own 1)) prefix 1 1) wc ts with
  | Ok e => emitted_eqb (emitted_codes e) seen
  | Err _ => false
  end.
Definition show_spec_ok (prefix ts : string) (wc : write_config) (seen : list (Z * option string)) : bool :=
  emitted_eqb (emitted_codes (expected_outputs wc prefix ts)) seen.

(* rows of the case shards: (model = implementation, property holds of the implementation) *)
Definition hist_case (v : option string) (argv : list string) (ops : list op) (o : observed) : bool * bool :=
  (history_model_ok v argv ops o, history_spec_ok v argv ops o).
Definition handoff_case (v : option string) (argv : list string) (p : Z) (ops : list op) (o : observed) : bool * bool :=
  (history_model_ok v argv (OpOverwrite (Some (Ext p)) :: ops) o, handoff_spec_ok v argv p ops o).
Definition show_case (prefix ts : string) (wc : write_config) (seen : list (Z * option string)) : bool * bool :=
  (show_model_ok prefix ts wc seen, show_spec_ok prefix ts wc seen).

(* whole interpreter runs: which decorations returned their argument, what appeared at exit *)
Definition is_ret (b : obs) : bool := match b with ObsRet _ => true | _ => false end.
Definition ret_is_same (b : obs) : bool := match b with ObsRet (Fn _) => true | _ => false end.
Definition sub_case (v : option string) (argv : list string) (ops : list op) (wc : write_config) (ts : string)
           (sames : list bool) (seen : list (Z * option string)) : bool * bool :=
  let '(bs, s) := run (environ_of v) argv gp_init ops in
  let req := requestedb v argv in
  (list_eqb Bool.eqb (map ret_is_same (filter is_ret bs)) sames
   && match at_exit s wc ts with
      | [] => emitted_eqb [] seen
      | [Ok e] => emitted_eqb (emitted_codes e) seen
      | _ => false
      end,
   list_eqb Bool.eqb (map ret_is_same (filter is_ret (spec_obs req (Own 1) None ops))) sames
   && emitted_eqb (if spec_active req None ops
                   then emitted_codes (expected_outputs wc (spec_prefix init_output_prefix ops) ts) else []) seen).
