(* String lemmas the Ast engine needs on top of Prelude.PyLemmas:
   join/split inverse and the reading of  s.rsplit('.', 1)[0]. *)
From LP Require Import Prelude.Py Prelude.PyLemmas.

Lemma join_split c s : join (String c EmptyString) (split c s) = s.
Proof.
  induction s as [|x s IH]; [reflexivity|].
  cbn [split]. destruct (Ascii.eqb_spec x c) as [->|Hne].
  - destruct (split c s) as [|h t] eqn:E; [exfalso; exact (split_nonempty c s E)|].
    change (join (String c "") ("" :: h :: t)) with (String c (join (String c "") (h :: t))).
    rewrite IH. reflexivity.
  - destruct (split c s) as [|h t] eqn:E; [exfalso; exact (split_nonempty c s E)|].
    destruct t as [|h2 t2].
    + cbn [join] in *. rewrite IH. reflexivity.
    + change (join (String c "") (String x h :: h2 :: t2))
        with (String x (h ++ String c "" ++ join (String c "") (h2 :: t2)))%string.
      change (join (String c "") (h :: h2 :: t2))
        with (h ++ String c "" ++ join (String c "") (h2 :: t2))%string in IH.
      rewrite IH. reflexivity.
Qed.

Lemma split_app_last c a b :
  no_char c b = true -> split c (a ++ String c b) = split c a ++ [b].
Proof.
  intros Hb. induction a as [|x a IH].
  - cbn [append split]. rewrite Ascii.eqb_refl. rewrite (split_no_char c b Hb). reflexivity.
  - cbn [append split]. destruct (Ascii.eqb x c).
    + rewrite IH. reflexivity.
    + rewrite IH. destruct (split c a) as [|h t] eqn:E; [exfalso; exact (split_nonempty c a E)|].
      reflexivity.
Qed.

(* python:  s.rsplit('.', 1)[0]  -- everything before the last dot, or s itself *)
Definition parent (s : string) : string :=
  match rsplit_dot s 1 with h :: _ => h | [] => s end.

Lemma parent_nodot s : no_char dot s = true -> parent s = s.
Proof.
  intros H. unfold parent, rsplit_dot. rewrite (split_no_char dot s H). reflexivity.
Qed.

Lemma parent_dotted a b :
  no_char dot b = true -> parent (a ++ "." ++ b) = a.
Proof.
  intros Hb. unfold parent, rsplit_dot.
  change ("." ++ b)%string with (String dot b).
  rewrite (split_app_last dot a b Hb).
  rewrite app_length. cbn [length].
  destruct (split dot a) as [|h t] eqn:E; [exfalso; exact (split_nonempty dot a E)|].
  pose proof (join_split dot a) as J. rewrite E in J.
  destruct (Z.of_nat (length (h :: t) + 1) - 1 <=? 1) eqn:C.
  - destruct t as [|h2 t2]; [|cbn [length] in C; lia]. cbn [join] in J. cbn [app]. exact J.
  - replace (Z.to_nat (Z.of_nat (length (h :: t) + 1) - 1)) with (length (h :: t)) by lia.
    rewrite firstn_app, Nat.sub_diag, firstn_all. cbn [firstn]. rewrite app_nil_r.
    change "."%string with (String dot "") . exact J.
Qed.

Lemma str_in_In x l : str_in x l = true <-> In x l.
Proof.
  unfold str_in. rewrite existsb_exists. split.
  - intros [y [Hy E]]. apply String.eqb_eq in E. subst. exact Hy.
  - intros H. exists x. split; [exact H|apply String.eqb_refl].
Qed.

Lemma str_in_app x a b : str_in x (a ++ b) = str_in x a || str_in x b.
Proof. unfold str_in. apply existsb_app. Qed.
