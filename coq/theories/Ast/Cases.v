(* Executable case evaluators used by the C08/C09 shards: model vs implementation
   (correspondence) and the property predicates on the implementation's own output. *)
From LP Require Import Prelude.Py Ast.AstLite Ast.AuxStr Ast.Select Ast.Transform.

Definition obody_eqb (a b : option (list stmt)) : bool := opt_eqb body_eqb a b.

(* model result against the implementation's: trees equal, or the same exception class *)
Definition res_tree_eqb (m : res (list stmt)) (impl : option (list stmt)) (impl_err : Z) : bool :=
  match m, impl with
  | Ok t, Some t' => body_eqb t t'
  | Err e, None => exn_code e =? impl_err
  | _, _ => false
  end.

Definition res_dict_eqb (m : res dict) (impl : option dict) : bool :=
  match m, impl with
  | Ok d, Some d' => dict_eqb d d'
  | Err _, None => true
  | _, _ => false
  end.

Definition zlist_eqb := list_eqb Z.eqb.
Definition fheads_eqb := list_eqb fhead_eqb.

(* decorators: with the script selected every function gets `profile` appended unless it
   has one; otherwise nothing changes.  On a clean program: exactly once, innermost. *)
Definition deco_ok (full : bool) (pre out : list stmt) : bool :=
  if full then
    fheads_eqb (funcs out) (map deco_once (funcs pre))
    && (if clean pre then forallb once_innermost (funcs out) else true)
  else fheads_eqb (funcs out) (funcs pre).

(* ---- C09 -------------------------------------------------------------------------- *)
(* result: [correspondence; selection exact; whole-script / nothing else] *)
Definition c09_case (full imports : bool) (modname : option string) (S : list string)
           (orig pre_impl : list stmt) (impl_dict : option dict) (impl_out : option (list stmt))
           (impl_err : Z) : list bool :=
  let c := Build_cfg full imports modname S in
  let corr :=
    res_tree_eqb (transform c orig) impl_out impl_err
    && res_dict_eqb (select S (pre c orig)) impl_dict
    && body_eqb (pre c orig) pre_impl in
  let sel_ok :=
    match impl_dict with
    | Some d => kvs_seteq d (wanted S pre_impl)
    | None => true
    end in
  let whole_ok :=
    match impl_out, impl_dict with
    | Some out, Some d =>
        deco_ok full pre_impl out
        && body_eqb (erase out) (erase pre_impl)
        && (if imports && full then strs_subset (map snd d ++ regs pre_impl) (regs out)
            else strs_seteq (regs out) (map snd d ++ regs pre_impl))
    | _, _ => true
    end in
  [corr; sel_ok; whole_ok].

(* ---- C08 -------------------------------------------------------------------------- *)
(* result: [correspondence; erasure; lines; decorators; located; __future__ placement; no `*`] *)
Definition c08_case (full imports : bool) (modname : option string) (S : list string)
           (orig : list stmt) (impl_out : option (list stmt)) (impl_err : Z) : list bool :=
  let c := Build_cfg full imports modname S in
  let t' := pre c orig in
  let corr := res_tree_eqb (transform c orig) impl_out impl_err in
  match impl_out with
  | Some out =>
      [corr;
       body_eqb (erase out) (erase t');
       zlist_eqb (lines out) (lines orig);
       deco_ok full t' out;
       implb (located orig) (located out);
       implb (future_ok orig) (future_ok out);
       implb (star_free orig) (star_free out)]
  | None => [corr; false; true; true; true; true; true]   (* the rewrite itself failed *)
  end.

Fixpoint transpose_flags (n : nat) (rows : list (list bool)) : list (list bool) :=
  match n with
  | O => []
  | S n' => map (fun r => match r with b :: _ => b | [] => true end) rows
            :: transpose_flags n' (map (fun r => match r with _ :: t => t | [] => [] end) rows)
  end.
