(* Executable case evaluators used by the C08/C09 shards: model vs implementation
   (correspondence) and the property predicates on the implementation's own output. *)
From LP Require Import Prelude.Py Ast.AstLite Ast.AuxStr Ast.Select Ast.Transform.

(* model result against the implementation's (None: the implementation raised) *)
Definition tree_eqb (m : list stmt) (impl : option (list stmt)) : bool :=
  match impl with Some t' => body_eqb m t' | None => false end.

Definition zlist_eqb := list_eqb Z.eqb.
Definition fheads_eqb := list_eqb fhead_eqb.

(* decorators: with the script selected every function gets `profile` appended unless it
   has one; otherwise nothing changes.  On a clean program: exactly once, innermost. *)
Definition deco_ok (full : bool) (pre out : list stmt) : bool :=
  if full then
    fheads_eqb (funcs out) (map deco_once (funcs pre))
    && (if clean pre then forallb once_innermost (funcs out) else true)
  else fheads_eqb (funcs out) (funcs pre).

(* C09_selection_exact + C09_selection_order on an observed dict *)
Definition selection_ok (S : list string) (body : list stmt) (d : dict) : bool :=
  kvs_seteq (dict_items d) (wanted S body)
  && forallb (fun kv => list_eqb String.eqb (snd kv)
                                 (map snd (filter (fun w => Z.eqb (fst w) (fst kv)) (wanted S body)))) d.

(* ---- C09 -------------------------------------------------------------------------- *)
(* result: [correspondence; selection exact; whole-script / nothing else] *)
Definition c09_case (full imports : bool) (modname : option string) (S : list string)
           (orig pre_impl : list stmt) (impl_dict : option dict) (impl_out : option (list stmt))
  : list bool :=
  let c := Build_cfg full imports modname S in
  let corr :=
    tree_eqb (transform c orig) impl_out
    && (match impl_dict with Some d => dict_eqb (select S (pre c orig)) d | None => false end)
    && body_eqb (pre c orig) pre_impl in
  let sel_ok := match impl_dict with Some d => selection_ok S pre_impl d | None => false end in
  let whole_ok :=
    match impl_out, impl_dict with
    | Some out, Some d =>
        deco_ok full pre_impl out
        && body_eqb (erase out) (erase pre_impl)
        && (if imports && full then strs_subset (map snd (dict_items d) ++ regs pre_impl) (regs out)
            else strs_seteq (regs out) (map snd (dict_items d) ++ regs pre_impl))
    | _, _ => false
    end in
  [corr; sel_ok; whole_ok].

(* ---- C08 -------------------------------------------------------------------------- *)
(* result: [correspondence; erasure; lines; decorators; located; __future__ placement; no `*`] *)
Definition c08_case (full imports : bool) (modname : option string) (S : list string)
           (orig : list stmt) (impl_out : option (list stmt)) : list bool :=
  let c := Build_cfg full imports modname S in
  let t' := pre c orig in
  let corr := tree_eqb (transform c orig) impl_out in
  match impl_out with
  | Some out =>
      [corr;
       body_eqb (erase out) (erase t');
       zlist_eqb (lines out) (lines orig);
       deco_ok full t' out;
       implb (located orig) (located out);
       implb (future_ok orig) (future_ok out);
       implb (star_free orig) (star_free out)]
  | None => [corr; false; true; true; true; true; true]   (* the rewrite itself failed *)
  end.
