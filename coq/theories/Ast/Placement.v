(* Where the inserted registration statements land: each carries the line of the import it
   follows ([located]), none is placed before a `from __future__ import` ([future_ok]),
   none registers `*` ([star_free]).  For all trees, by induction (every nested body). *)
From LP Require Import Prelude.Py Prelude.PyLemmas Gen.RelImport
     Ast.AstLite Ast.AuxStr Ast.Select Ast.Transform Ast.TransformFacts.

(* ===== located ========================================================================== *)
Definition check (cur loc : option Z) : bool :=
  match cur with Some l => oz_eqb loc (Some l) | None => true end.

Definition loc_ok (F : stmt -> bool) (cur : option Z) (s : stmt) : bool :=
  match s with
  | ProfCall _ loc => check cur loc
  | Import _ _ => true
  | ImportFrom _ _ _ _ => true
  | _ => F s
  end.

Definition loc_next (cur : option Z) (s : stmt) : option Z :=
  match s with
  | ProfCall _ _ => cur
  | Import _ l => Some l
  | ImportFrom _ _ _ l => Some l
  | _ => None
  end.

Definition loc_after (cur : option Z) (l : list stmt) : option Z := fold_left loc_next l cur.

Lemma loc_list_cons F cur s r :
  loc_list F cur (s :: r) = loc_ok F cur s && loc_list F (loc_next cur s) r.
Proof. destruct s; reflexivity. Qed.

Lemma loc_list_app F a : forall cur b,
  loc_list F cur (a ++ b) = loc_list F cur a && loc_list F (loc_after cur a) b.
Proof.
  induction a as [|s a IH]; intros cur b; [reflexivity|].
  cbn [app]. rewrite !loc_list_cons, IH, andb_assoc. reflexivity.
Qed.

Lemma z_eqb_refl_opt l : oz_eqb (Some l) (Some l) = true.
Proof. cbn. apply Z.eqb_refl. Qed.

Lemma loc_calls F cur loc names rest :
  check cur loc = true -> loc_list F cur (calls loc names ++ rest) = loc_list F cur rest.
Proof.
  intros H. induction names as [|n r IH]; [reflexivity|].
  cbn [calls map app]. rewrite loc_list_cons. cbn [loc_ok loc_next]. rewrite H. exact IH.
Qed.

Lemma check_next F cur s : loc_ok F cur s = true -> check (loc_next cur s) (stmt_line s) = true.
Proof.
  destruct s; cbn [loc_ok loc_next stmt_line check]; intros H; try reflexivity; try apply z_eqb_refl_opt.
  exact H.
Qed.

(* stage 1: the interleaved insertion *)
Lemma located_expand F f : forall b cur i,
  loc_list F cur b = true -> loc_list F cur (expand f i b) = true.
Proof.
  induction b as [|s r IH]; intros cur i H; [reflexivity|].
  cbn [expand]. rewrite loc_list_cons in *. apply andb_prop in H as [H1 H2]. rewrite H1. cbn [andb].
  change (map (fun n => ProfCall n (stmt_line s)) (f i)) with (calls (stmt_line s) (f i)).
  rewrite loc_calls by (apply (check_next F); exact H1). apply IH. exact H2.
Qed.

(* stage 2: the transformer *)
Lemma calls_at_after loc ok extras cur :
  Forall (is_call_at loc ok) extras -> loc_after cur extras = cur.
Proof.
  intros H. revert cur. induction H as [|s r Hs _ IH]; intros cur; [reflexivity|].
  destruct s; cbn in Hs; try contradiction. cbn [loc_after fold_left loc_next]. apply IH.
Qed.

Lemma calls_at_ok F l ok extras :
  Forall (is_call_at (Some l) ok) extras -> loc_list F (Some l) extras = true.
Proof.
  induction 1 as [|s r Hs _ IH]; [reflexivity|].
  destruct s; cbn in Hs; try contradiction. destruct Hs as [-> _].
  rewrite loc_list_cons. cbn [loc_ok loc_next check]. rewrite z_eqb_refl_opt. exact IH.
Qed.

Lemma located_visit imports : forall b pi cur,
  loc_list located_stmt cur b = true ->
  loc_list located_stmt cur (fst (visit_body imports pi b)) = true.
Proof.
  intros b.
  apply (body_ind'
           (fun s => forall pi cur,
                loc_after cur (fst (visit_stmt imports pi s)) = loc_next cur s
                /\ (loc_ok located_stmt cur s = true ->
                    loc_list located_stmt cur (fst (visit_stmt imports pi s)) = true))
           (fun b => forall pi cur, loc_list located_stmt cur b = true ->
                                    loc_list located_stmt cur (fst (visit_body imports pi b)) = true)
           (fun bs => forall pi,
                forallb (fun p => loc_list located_stmt None (snd p)) bs = true ->
                forallb (fun p => loc_list located_stmt None (snd p)) (fst (visit_bodies imports pi bs)) = true)).
  - intros pi cur _. reflexivity.
  - intros s r Hs Hr pi cur H. unfold visit_body in *. cbn [smap].
    specialize (Hs pi cur). destruct (visit_stmt imports pi s) as [b1 pi1]. cbn [fst] in Hs.
    specialize (Hr pi1). destruct (smap (visit_stmt imports) pi1 r) as [r' pi2]. cbn [fst] in *.
    rewrite loc_list_cons in H. apply andb_prop in H as [H1 H2]. destruct Hs as [Ha Hok].
    rewrite loc_list_app, (Hok H1), Ha. cbn [andb]. apply Hr. exact H2.
  - intros pi _. reflexivity.
  - intros l b0 r Hb Hr pi H. unfold visit_bodies in *. cbn [smap snd fst].
    specialize (Hb pi None). unfold visit_body in Hb.
    destruct (smap (visit_stmt imports) pi b0) as [b' pi1]. cbn [fst] in Hb.
    specialize (Hr pi1). destruct (smap _ pi1 r) as [r' pi2]. cbn [fst] in *.
    cbn [forallb snd] in H. apply andb_prop in H as [H1 H2].
    cbn [app forallb snd]. rewrite (Hb H1), (Hr H2). reflexivity.
  - intros a n ds b0 l Hb pi cur. cbn [visit_stmt]. specialize (Hb pi None). unfold visit_body in Hb.
    destruct (smap (visit_stmt imports) pi b0) as [b' pi']. cbn [fst] in *.
    split; [reflexivity|]. cbn [loc_ok located_stmt]. intros H.
    rewrite loc_list_cons. cbn [loc_ok located_stmt loc_list]. rewrite (Hb H). reflexivity.
  - intros n i b0 l Hb pi cur. cbn [visit_stmt]. specialize (Hb pi None). unfold visit_body in Hb.
    destruct (smap (visit_stmt imports) pi b0) as [b' pi']. cbn [fst] in *.
    split; [reflexivity|]. cbn [loc_ok located_stmt]. intros H.
    rewrite loc_list_cons. cbn [loc_ok located_stmt loc_list]. rewrite (Hb H). reflexivity.
  - intros ns l pi cur. cbn [visit_stmt]. destruct imports; [|split; [reflexivity|intros _; reflexivity]].
    pose proof (visit_import_names_shape (Some l) pi ns) as Hsh.
    destruct (visit_import_names (Some l) pi ns) as [extra pi']. cbn [fst] in *. split.
    + cbn [loc_after fold_left loc_next]. apply (calls_at_after _ _ _ _ Hsh).
    + intros _. rewrite loc_list_cons. cbn [loc_ok loc_next andb]. apply (calls_at_ok _ _ _ _ Hsh).
  - intros m ns lv l pi cur. cbn [visit_stmt].
    destruct (imports && negb (from_future m)); [|split; [reflexivity|intros _; reflexivity]].
    pose proof (visit_import_names_shape (Some l) pi ns) as Hsh.
    destruct (visit_import_names (Some l) pi ns) as [extra pi']. cbn [fst] in *. split.
    + cbn [loc_after fold_left loc_next]. apply (calls_at_after _ _ _ _ Hsh).
    + intros _. rewrite loc_list_cons. cbn [loc_ok loc_next andb]. apply (calls_at_ok _ _ _ _ Hsh).
  - intros i bs l Hbs pi cur. cbn [visit_stmt]. specialize (Hbs pi). unfold visit_bodies in Hbs.
    destruct (smap _ pi bs) as [bs' pi']. cbn [fst] in *.
    split; [reflexivity|]. cbn [loc_ok located_stmt]. intros H.
    rewrite loc_list_cons. cbn [loc_ok located_stmt loc_list]. rewrite (Hbs H). reflexivity.
  - intros i l pi cur. split; [reflexivity|]. cbn. intros _. reflexivity.
  - intros n loc pi cur. split; [reflexivity|]. cbn [visit_stmt fst loc_ok]. intros H.
    rewrite loc_list_cons. cbn [loc_ok loc_list]. rewrite H. reflexivity.
Qed.

(* a statement-wise map that keeps kinds, import lines and the checks keeps [located] *)
Section LocatedMap.
  Variable G : Z -> stmt -> stmt.      (* parameterised by the line of the enclosing node *)
  Hypothesis G_func : forall pl a n ds b l, G pl (FuncDef a n ds b l) = FuncDef a n ds (map (G l) b) l.
  Hypothesis G_class : forall pl n i b l, G pl (ClassDef n i b l) = ClassDef n i (map (G l) b) l.
  Hypothesis G_comp : forall pl i bs l,
    G pl (Compound i bs l) = Compound i (map (fun p => (fst p, map (G (fst p)) (snd p))) bs) l.
  Hypothesis G_import : forall pl ns l, G pl (Import ns l) = Import ns l.
  Hypothesis G_from : forall pl m ns lv l, exists m' lv', G pl (ImportFrom m ns lv l) = ImportFrom m' ns lv' l.
  Hypothesis G_other : forall pl i l, G pl (Other i l) = Other i l.
  Hypothesis G_prof : forall pl n loc cur,
    check cur loc = true -> exists loc', G pl (ProfCall n loc) = ProfCall n loc' /\ check cur loc' = true.

  Lemma located_map : forall b pl cur,
    loc_list located_stmt cur b = true -> loc_list located_stmt cur (map (G pl) b) = true.
  Proof.
    intros b.
    apply (body_ind'
             (fun s => forall pl cur,
                  loc_next cur (G pl s) = loc_next cur s
                  /\ (loc_ok located_stmt cur s = true -> loc_ok located_stmt cur (G pl s) = true))
             (fun b => forall pl cur, loc_list located_stmt cur b = true ->
                                      loc_list located_stmt cur (map (G pl) b) = true)
             (fun bs => forallb (fun p => loc_list located_stmt None (snd p)) bs = true ->
                        forallb (fun p => loc_list located_stmt None (snd p))
                                (map (fun p => (fst p, map (G (fst p)) (snd p))) bs) = true)).
    - intros pl cur _. reflexivity.
    - intros s r Hs Hr pl cur H. cbn [map]. rewrite loc_list_cons in *.
      apply andb_prop in H as [H1 H2]. destruct (Hs pl cur) as [Hn Hok].
      rewrite (Hok H1), Hn. cbn [andb]. apply Hr. exact H2.
    - intros _. reflexivity.
    - intros l b0 r Hb Hr H. cbn [forallb snd] in H. apply andb_prop in H as [H1 H2].
      cbn [map forallb fst snd]. rewrite (Hb l None H1), (Hr H2). reflexivity.
    - intros a n ds b0 l Hb pl cur. rewrite G_func. split; [reflexivity|].
      cbn [loc_ok located_stmt]. intros H. apply Hb. exact H.
    - intros n i b0 l Hb pl cur. rewrite G_class. split; [reflexivity|].
      cbn [loc_ok located_stmt]. intros H. apply Hb. exact H.
    - intros ns l pl cur. rewrite G_import. split; [reflexivity|intros H; exact H].
    - intros m ns lv l pl cur. destruct (G_from pl m ns lv l) as [m' [lv' E]]. rewrite E.
      split; [reflexivity|intros H; exact H].
    - intros i bs l Hbs pl cur. rewrite G_comp. split; [reflexivity|].
      cbn [loc_ok located_stmt]. intros H. apply Hbs. exact H.
    - intros i l pl cur. rewrite G_other. split; [reflexivity|intros H; exact H].
    - intros n loc pl cur. split.
      + destruct (G_prof pl n loc None eq_refl) as [loc' [E _]]. rewrite E. reflexivity.
      + cbn [loc_ok]. intros H. destruct (G_prof pl n loc cur H) as [loc' [E H']]. rewrite E. exact H'.
  Qed.
End LocatedMap.

Lemma located_fix b pl cur :
  loc_list located_stmt cur b = true -> loc_list located_stmt cur (fix_locs pl b) = true.
Proof.
  apply (located_map fix_stmt); try (intros; reflexivity).
  - intros pl0 m ns lv l. exists m, lv. reflexivity.
  - intros pl0 n loc c H. destruct loc as [l|]; [exists (Some l); split; [reflexivity|exact H]|].
    exists (Some pl0). split; [reflexivity|]. destruct c; [discriminate H|reflexivity].
Qed.

Lemma located_abs m b cur :
  loc_list located_stmt cur b = true -> loc_list located_stmt cur (absolutize m b) = true.
Proof.
  apply (located_map (fun _ => abs_stmt m) (fun _ _ _ _ _ _ => eq_refl) (fun _ _ _ _ _ => eq_refl)
                     (fun _ _ _ _ => eq_refl) (fun _ _ _ => eq_refl)); try (intros; reflexivity).
  - intros pl0 md ns lv l. cbn [abs_stmt]. destruct (Z.eqb lv 0); [exists md, lv; reflexivity|].
    destruct (get_module_from_importfrom lv md m) as [r|e]; [exists r, 0|exists md, lv]; reflexivity.
  - intros pl0 n loc c H. exists loc. split; [reflexivity|exact H].
  - exact 0.
Qed.

Theorem located_pre c body : located body = true -> located (pre c body) = true.
Proof. unfold pre, located. destruct (c_module c); [apply located_abs|tauto]. Qed.

(* every inserted statement carries the line of the import it follows *)
Theorem located_transform c body :
  located (pre c body) = true -> located (transform c body) = true.
Proof.
  intros H. rewrite transform_stages. unfold located. apply located_fix. unfold stage2.
  assert (H1 : loc_list located_stmt None (stage1 c body) = true) by (apply located_expand; exact H).
  destruct (c_full c); [apply located_visit|]; exact H1.
Qed.

(* ===== `from __future__ import` stays at the beginning ================================== *)
Definition not_future (s : stmt) : bool := negb (is_future s).

(* b' is b with non-future statements possibly replaced by same-kind ones and followed by
   non-future extras; docstrings get no extras; future imports are untouched *)
Inductive ins_rel : list stmt -> list stmt -> Prop :=
| ir_nil : ins_rel [] []
| ir_future s b b' : is_future s = true -> ins_rel b b' -> ins_rel (s :: b) (s :: b')
| ir_other s s' extras b b' :
    is_future s = false -> is_future s' = false -> is_docstring s' = is_docstring s ->
    forallb not_future extras = true -> (is_docstring s = true -> extras = []) ->
    ins_rel b b' -> ins_rel (s :: b) (s' :: extras ++ b').

Lemma ins_rel_free b b' : ins_rel b b' -> existsb is_future b = false -> existsb is_future b' = false.
Proof.
  induction 1 as [|s b b' Hs _ IH|s s' extras b b' Hs Hs' _ He _ _ IH]; intros H; [reflexivity| |].
  - cbn [existsb] in H. rewrite Hs in H. discriminate.
  - cbn [existsb] in *. rewrite Hs in H. cbn [orb] in H. rewrite Hs', existsb_app, (IH H), orb_false_r. cbn [orb].
    clear -He. induction extras as [|x r IHr]; [reflexivity|]. cbn [forallb existsb] in *.
    apply andb_prop in He as [H1 H2]. unfold not_future in H1. destruct (is_future x); [discriminate|]. apply IHr. exact H2.
Qed.

Lemma ins_rel_drop b b' :
  ins_rel b b' -> existsb is_future (drop_future b) = false -> existsb is_future (drop_future b') = false.
Proof.
  induction 1 as [|s b b' Hs _ IH|s s' extras b b' Hs Hs' Hd He Hdoc Hr IH]; intros H; [reflexivity| |].
  - cbn [drop_future] in *. rewrite Hs in *. apply IH. exact H.
  - cbn [drop_future] in *. rewrite Hs in H. rewrite Hs'.
    apply (ins_rel_free (s :: b) (s' :: extras ++ b')); [|exact H].
    apply ir_other; assumption.
Qed.

Lemma future_doc_excl s : is_docstring s = true -> is_future s = false.
Proof. destruct s; cbn; try discriminate; reflexivity. Qed.

Theorem future_ok_rel b b' : ins_rel b b' -> future_ok b = true -> future_ok b' = true.
Proof.
  intros Hr. unfold future_ok. destruct Hr as [|s b b' Hs Hr|s s' extras b b' Hs Hs' Hd He Hdoc Hr].
  - tauto.
  - assert (Hnd : is_docstring s = false) by (destruct (is_docstring s) eqn:E; [apply future_doc_excl in E; congruence|reflexivity]).
    rewrite Hnd. intros H. apply negb_true_iff in H. apply negb_true_iff.
    apply (ins_rel_drop (s :: b) (s :: b')); [apply ir_future; assumption|exact H].
  - pose proof (ir_other s s' extras b b' Hs Hs' Hd He Hdoc Hr) as Hrel.
    rewrite Hd. destruct (is_docstring s) eqn:E.
    + rewrite (Hdoc eq_refl). cbn [app]. intros H. apply negb_true_iff in H. apply negb_true_iff.
      apply (ins_rel_drop b b' Hr H).
    + intros H. apply negb_true_iff in H. apply negb_true_iff.
      apply (ins_rel_drop (s :: b) (s' :: extras ++ b') Hrel H).
Qed.

Lemma calls_not_future loc names : forallb not_future (calls loc names) = true.
Proof. induction names as [|n r IH]; [reflexivity|exact IH]. Qed.

(* stage 1 *)
Lemma ins_rel_expand f : forall b i,
  (forall j s, i <= j -> nth_error b (Z.to_nat (j - i)) = Some s ->
               is_future s = true \/ is_docstring s = true -> f j = []) ->
  ins_rel b (expand f i b).
Proof.
  induction b as [|s r IH]; intros i H; [constructor|].
  cbn [expand]. change (map (fun n => ProfCall n (stmt_line s)) (f i)) with (calls (stmt_line s) (f i)).
  assert (Hr : ins_rel r (expand f (i + 1) r)).
  { apply IH. intros j s0 Hj Hn Hk. apply (H j s0); [lia| |exact Hk].
    replace (Z.to_nat (j - i)) with (S (Z.to_nat (j - (i + 1)))) by lia. exact Hn. }
  assert (H0 : is_future s = true \/ is_docstring s = true -> f i = []).
  { intros Hk. apply (H i s); [lia|rewrite Z.sub_diag; reflexivity|exact Hk]. }
  destruct (is_future s) eqn:Ef.
  - rewrite (H0 (or_introl eq_refl)). cbn [calls map app]. apply ir_future; assumption.
  - apply ir_other; try assumption; [reflexivity|apply calls_not_future|].
    intros Hd. rewrite (H0 (or_intror Hd)). reflexivity.
Qed.

(* stage 2: only the head constructors of the top-level statements matter *)
Lemma all_prof_not_future l : forallb is_profcall l = true -> forallb not_future l = true.
Proof.
  induction l as [|s r IH]; [reflexivity|]. cbn [forallb]. intros H. apply andb_prop in H as [H1 H2].
  rewrite (IH H2). destruct s; try discriminate H1. reflexivity.
Qed.

Lemma from_future_of_is_future m ns lv l : is_future (ImportFrom m ns lv l) = true -> from_future m = true.
Proof.
  destruct m as [m|]; cbn [is_future]; [|discriminate]. intros H. apply andb_prop in H as [H _].
  unfold from_future. cbn. exact H.
Qed.

Lemma visit_stmt_head imports pi s :
  exists s' extras,
    fst (visit_stmt imports pi s) = s' :: extras
    /\ is_future s' = is_future s /\ is_docstring s' = is_docstring s
    /\ forallb not_future extras = true
    /\ (is_future s = true -> s' = s /\ extras = [])
    /\ (is_docstring s = true -> extras = []).
Proof.
  destruct s as [a n ds b l|n i b l|ns l|m ns lv l|i bs l|i l|n loc]; cbn [visit_stmt].
  - destruct (smap (visit_stmt imports) pi b) as [b' pi']. exists (FuncDef a n (add_deco ds) b' l), [].
    cbn. repeat split; discriminate.
  - destruct (smap (visit_stmt imports) pi b) as [b' pi']. exists (ClassDef n i b' l), [].
    cbn. repeat split; discriminate.
  - destruct imports.
    + pose proof (visit_import_names_all_prof (Some l) pi ns) as Hp.
      destruct (visit_import_names (Some l) pi ns) as [extra pi']. cbn [fst] in *.
      exists (Import ns l), extra. repeat split; try discriminate. apply all_prof_not_future. exact Hp.
    + exists (Import ns l), []. repeat split; discriminate.
  - destruct (imports && negb (from_future m)) eqn:E.
    + pose proof (visit_import_names_all_prof (Some l) pi ns) as Hp.
      destruct (visit_import_names (Some l) pi ns) as [extra pi']. cbn [fst] in *.
      exists (ImportFrom m ns lv l), extra.
      split; [reflexivity|]. split; [reflexivity|]. split; [reflexivity|].
      split; [apply all_prof_not_future; exact Hp|]. split; [|discriminate].
      intros Hf. apply from_future_of_is_future in Hf. rewrite Hf, andb_false_r in E. discriminate.
    + exists (ImportFrom m ns lv l), []. repeat split; discriminate.
  - destruct (smap _ pi bs) as [bs' pi']. exists (Compound i bs' l), []. cbn. repeat split; discriminate.
  - exists (Other i l), []. cbn. repeat split; discriminate.
  - exists (ProfCall n loc), []. cbn. repeat split; discriminate.
Qed.

Lemma ins_rel_visit imports : forall b pi, ins_rel b (fst (visit_body imports pi b)).
Proof.
  induction b as [|s r IH]; intros pi; [constructor|].
  unfold visit_body in *. cbn [smap].
  destruct (visit_stmt_head imports pi s) as [s' [extras [E [Hf [Hd [He [Hfut Hdoc]]]]]]].
  destruct (visit_stmt imports pi s) as [b1 pi1]. cbn [fst] in E. subst b1.
  specialize (IH pi1). destruct (smap (visit_stmt imports) pi1 r) as [r' pi2]. cbn [fst] in *.
  cbn [app]. destruct (is_future s) eqn:Efs.
  - destruct (Hfut eq_refl) as [-> ->]. cbn [app]. apply ir_future; assumption.
  - apply ir_other; assumption.
Qed.

(* stage 3 *)
Lemma fix_stmt_kind pl s :
  is_future (fix_stmt pl s) = is_future s /\ is_docstring (fix_stmt pl s) = is_docstring s
  /\ (is_future s = true -> fix_stmt pl s = s).
Proof. destruct s as [| | | | | |n [l|]]; cbn; repeat split; try discriminate; reflexivity. Qed.

Lemma ins_rel_fix pl : forall b, ins_rel b (fix_locs pl b).
Proof.
  induction b as [|s r IH]; [constructor|]. unfold fix_locs in *. cbn [map].
  destruct (fix_stmt_kind pl s) as [Hf [Hd Hs]]. destruct (is_future s) eqn:E.
  - rewrite (Hs eq_refl). apply ir_future; assumption.
  - apply (ir_other s (fix_stmt pl s) [] r (map (fix_stmt pl) r)); try assumption; try reflexivity; congruence.
Qed.

Lemma profilable_not_header s : profilable_import s -> is_future s = false /\ is_docstring s = false.
Proof.
  destruct s as [| |ns l|m ns lv l| | |]; cbn; try contradiction; [split; reflexivity|].
  destruct m as [m|]; [|contradiction]. unfold future_module. intros ->. split; reflexivity.
Qed.

(* no statement is inserted before a `from __future__ import` *)
Theorem future_transform c body :
  future_ok (pre c body) = true -> future_ok (transform c body) = true.
Proof.
  intros H. rewrite transform_stages.
  apply (future_ok_rel (stage2 c body)); [apply ins_rel_fix|].
  assert (H1 : future_ok (stage1 c body) = true).
  { apply (future_ok_rel (pre c body)); [|exact H]. unfold stage1. apply ins_rel_expand.
    intros j s Hj Hn Hk. rewrite Z.sub_0_r in Hn.
    destruct (dict_names (select (c_sel c) (pre c body)) j) as [|y ys] eqn:E; [reflexivity|exfalso].
    assert (Hy : In y (dict_names (select (c_sel c) (pre c body)) j)) by (rewrite E; left; reflexivity).
    destruct (select_names_at _ _ _ _ Hy) as [_ [s0 [Hn0 Hp]]]. rewrite Hn in Hn0. inversion Hn0; subst s0.
    destruct (profilable_not_header s Hp) as [F1 F2]. destruct Hk; congruence. }
  unfold stage2. destruct (c_full c); [|exact H1].
  apply (future_ok_rel (stage1 c body)); [apply ins_rel_visit|exact H1].
Qed.

(* ===== no registration of `*` ============================================================ *)
(* the names _visit_import may register for one import statement *)
Definition stmt_import_names (s : stmt) : list string :=
  match s with
  | Import ns _ => map node_name (filter (fun a => negb (is_star a)) ns)
  | ImportFrom m ns _ _ =>
      if from_future m then [] else map node_name (filter (fun a => negb (is_star a)) ns)
  | _ => []
  end.

Fixpoint import_names_stmt (s : stmt) : list string :=
  match s with
  | FuncDef _ _ _ b _ => flat_map import_names_stmt b
  | ClassDef _ _ b _ => flat_map import_names_stmt b
  | Compound _ bs _ => flat_map (fun p => flat_map import_names_stmt (snd p)) bs
  | Import _ _ => stmt_import_names s
  | ImportFrom _ _ _ _ => stmt_import_names s
  | _ => []
  end.
Definition import_names (b : list stmt) : list string := flat_map import_names_stmt b.

Lemma calls_at_regs loc ns extras y :
  Forall (is_call_at loc (alias_name_of ns)) extras -> In y (regs extras) ->
  In y (map node_name (filter (fun a => negb (is_star a)) ns)).
Proof.
  induction 1 as [|s r Hs _ IH]; [intros []|].
  destruct s; cbn in Hs; try contradiction. destruct Hs as [_ [a [Ha [Hst ->]]]].
  rewrite regs_cons. cbn [regs_stmt]. intros [<-|H]; [|apply IH; exact H].
  apply in_map. apply filter_In. split; [exact Ha|]. rewrite Hst. reflexivity.
Qed.

Lemma regs_visit_incl imports : forall b pi y,
  In y (regs (fst (visit_body imports pi b))) -> In y (regs b) \/ In y (import_names b).
Proof.
  intros b.
  apply (body_ind'
           (fun s => forall pi y, In y (regs (fst (visit_stmt imports pi s))) ->
                                  In y (regs_stmt s) \/ In y (import_names_stmt s))
           (fun b => forall pi y, In y (regs (fst (visit_body imports pi b))) ->
                                  In y (regs b) \/ In y (import_names b))
           (fun bs => forall pi y,
                In y (flat_map (fun p => flat_map regs_stmt (snd p)) (fst (visit_bodies imports pi bs))) ->
                In y (flat_map (fun p => flat_map regs_stmt (snd p)) bs)
                \/ In y (flat_map (fun p => flat_map import_names_stmt (snd p)) bs))).
  - intros pi y [].
  - intros s r Hs Hr pi y. unfold visit_body in *. cbn [smap].
    specialize (Hs pi y). destruct (visit_stmt imports pi s) as [b1 pi1]. cbn [fst] in Hs.
    specialize (Hr pi1 y). destruct (smap (visit_stmt imports) pi1 r) as [r' pi2]. cbn [fst] in *.
    rewrite regs_app, in_app_iff. unfold import_names. rewrite regs_cons. cbn [flat_map]. rewrite !in_app_iff.
    intros [H|H]; [destruct (Hs H)|destruct (Hr H)]; tauto.
  - intros pi y [].
  - intros l b0 r Hb Hr pi y. unfold visit_bodies in *. cbn [smap snd fst].
    specialize (Hb pi y). unfold visit_body in Hb.
    destruct (smap (visit_stmt imports) pi b0) as [b' pi1]. cbn [fst] in Hb.
    specialize (Hr pi1 y). destruct (smap _ pi1 r) as [r' pi2]. cbn [fst] in *.
    cbn [app flat_map snd]. rewrite !in_app_iff.
    intros [H|H]; [destruct (Hb H)|destruct (Hr H)]; tauto.
  - intros a n ds b0 l Hb pi y. cbn [visit_stmt]. specialize (Hb pi y). unfold visit_body in Hb.
    destruct (smap (visit_stmt imports) pi b0) as [b' pi']. cbn [fst] in *.
    rewrite regs_cons. cbn [regs_stmt import_names_stmt]. rewrite app_nil_r. exact Hb.
  - intros n i b0 l Hb pi y. cbn [visit_stmt]. specialize (Hb pi y). unfold visit_body in Hb.
    destruct (smap (visit_stmt imports) pi b0) as [b' pi']. cbn [fst] in *.
    rewrite regs_cons. cbn [regs_stmt import_names_stmt]. rewrite app_nil_r. exact Hb.
  - intros ns l pi y. cbn [visit_stmt]. destruct imports; [|intros []].
    pose proof (visit_import_names_shape (Some l) pi ns) as Hsh.
    destruct (visit_import_names (Some l) pi ns) as [extra pi']. cbn [fst] in *.
    rewrite regs_cons. cbn [regs_stmt app]. intros H. right. cbn [import_names_stmt stmt_import_names].
    apply (calls_at_regs _ _ _ _ Hsh H).
  - intros m ns lv l pi y. cbn [visit_stmt]. destruct (imports && negb (from_future m)) eqn:E; [|intros []].
    pose proof (visit_import_names_shape (Some l) pi ns) as Hsh.
    destruct (visit_import_names (Some l) pi ns) as [extra pi']. cbn [fst] in *.
    rewrite regs_cons. cbn [regs_stmt app]. intros H. right. cbn [import_names_stmt stmt_import_names].
    apply andb_prop in E as [_ E]. apply negb_true_iff in E. rewrite E.
    apply (calls_at_regs _ _ _ _ Hsh H).
  - intros i bs l Hbs pi y. cbn [visit_stmt]. specialize (Hbs pi y). unfold visit_bodies in Hbs.
    destruct (smap _ pi bs) as [bs' pi']. cbn [fst] in *.
    rewrite regs_cons. cbn [regs_stmt import_names_stmt]. rewrite app_nil_r. exact Hbs.
  - intros i l pi y [].
  - intros n loc pi y. cbn [visit_stmt fst]. rewrite regs_cons. cbn [regs_stmt]. rewrite app_nil_r. tauto.
Qed.

(* the grammar of import statements: `*` occurs only as the name of a from-import alias, so no
   alias yields `*` as the name it binds *)
Definition star_grammar (b : list stmt) : bool :=
  negb (str_in "*" (import_names b)) && negb (str_in "*" (map reg_name (all_bindings b))).

Lemma wanted_names_bindings S body y :
  In y (map snd (wanted S body)) -> In y (map reg_name (all_bindings body)).
Proof.
  unfold wanted. rewrite map_map. intros H. apply in_map_iff in H as [m [E Hm]]. cbn [kv_of snd] in E.
  apply filter_In in Hm as [Hm _]. apply in_first_by_name in Hm. apply in_map_iff. exists m. split; assumption.
Qed.

(* every name handed to a registration call is already registered by the program, or is the
   alias of a selected binding, or the name bound by a non-star alias of a visited import *)
Theorem regs_transform_incl c body y :
  In y (regs (transform c body)) ->
  In y (regs (pre c body)) \/ In y (map snd (wanted (c_sel c) (pre c body))) \/ In y (import_names (pre c body)).
Proof.
  rewrite transform_stages, regs_fix.
  assert (H1 : In y (regs (stage1 c body)) ->
               In y (regs (pre c body)) \/ In y (map snd (wanted (c_sel c) (pre c body)))).
  { unfold stage1. rewrite regs_expand. intros [[j [_ Hy]]|Hr]; [right|left; exact Hr].
    apply dict_names_items in Hy. apply selection_exact in Hy.
    apply in_map_iff. exists (j, y). split; [reflexivity|exact Hy]. }
  unfold stage2. destruct (c_full c); [|intros H; destruct (H1 H); tauto].
  intros H. apply regs_visit_incl in H as [H|H]; [destruct (H1 H); tauto|].
  right. right. unfold stage1, import_names in *. rewrite expand_fm in H by reflexivity. exact H.
Qed.

Theorem star_transform c body :
  star_grammar (pre c body) = true -> star_free (pre c body) = true ->
  star_free (transform c body) = true.
Proof.
  unfold star_grammar, star_free. intros Hg Hs. apply andb_prop in Hg as [G1 G2].
  apply negb_true_iff in G1, G2, Hs. apply negb_true_iff.
  destruct (str_in "*" (regs (transform c body))) eqn:E; [|reflexivity].
  apply str_in_In in E. apply regs_transform_incl in E as [E|[E|E]].
  - apply str_in_In in E. congruence.
  - apply wanted_names_bindings in E. apply str_in_In in E. congruence.
  - apply str_in_In in E. congruence.
Qed.
