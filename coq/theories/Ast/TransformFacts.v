(* Facts about Ast/Transform.v, all by structural induction over the nested tree
   (unbounded depth): what the rewrite adds is only `profile` decorators and
   registration statements, placed directly behind their import, carrying its line. *)
From Coq Require Import Sorting.Sorted.
From LP Require Import Prelude.Py Prelude.PyLemmas Gen.RelImport
     Ast.AstLite Ast.AuxStr Ast.Select Ast.Transform.

(* ---- small list facts ---------------------------------------------------------------- *)
Definition is_profcall (s : stmt) : bool := match s with ProfCall _ _ => true | _ => false end.

Lemma all_prof_fm {B} (g : stmt -> list B) (l : list stmt) :
  (forall n loc, g (ProfCall n loc) = []) -> forallb is_profcall l = true -> flat_map g l = [].
Proof.
  intros Hg. induction l as [|s l IH]; cbn [forallb flat_map]; [reflexivity|].
  intros H. apply andb_prop in H as [Hs Hl]. destruct s; try discriminate Hs.
  rewrite Hg, IH by exact Hl. reflexivity.
Qed.

Definition calls (loc : option Z) (names : list string) : list stmt :=
  map (fun n => ProfCall n loc) names.

Lemma calls_all_prof loc names : forallb is_profcall (calls loc names) = true.
Proof. induction names as [|n r IH]; [reflexivity|exact IH]. Qed.

Lemma calls_fm {B} (g : stmt -> list B) loc names :
  (forall n loc, g (ProfCall n loc) = []) -> flat_map g (calls loc names) = [].
Proof. intros Hg. apply all_prof_fm; [exact Hg|apply calls_all_prof]. Qed.

Lemma regs_calls loc names : regs (calls loc names) = names.
Proof. unfold regs, calls. induction names as [|n r IH]; [reflexivity|]. cbn. rewrite IH. reflexivity. Qed.

(* ---- sorted(list(d), reverse=True) ----------------------------------------------------- *)
Lemma insert_desc_in k l x : In x (insert_desc k l) <-> x = k \/ In x l.
Proof.
  induction l as [|y l IH]; cbn [insert_desc In]; [intuition|].
  destruct (y <? k); cbn [In]; [intuition|]. rewrite IH. intuition.
Qed.

Lemma sort_desc_in l x : In x (sort_desc l) <-> In x l.
Proof.
  induction l as [|y l IH]; cbn [sort_desc fold_right In]; [tauto|].
  change (fold_right insert_desc [] l) with (sort_desc l). rewrite insert_desc_in, IH. intuition.
Qed.

Lemma insert_desc_sorted k l :
  ~ In k l -> StronglySorted Z.gt l -> StronglySorted Z.gt (insert_desc k l).
Proof.
  induction l as [|y l IH]; intros Hn Hs; cbn [insert_desc].
  - constructor; [constructor|constructor].
  - inversion Hs as [|? ? Hs' Hall]; subst. destruct (y <? k) eqn:E.
    + constructor; [exact Hs|]. constructor; [lia|].
      eapply Forall_impl; [|exact Hall]. intros a Ha. cbn in Ha. lia.
    + constructor.
      * apply IH; [intros Hin; apply Hn; right; exact Hin|exact Hs'].
      * apply Forall_forall. intros x Hx. apply insert_desc_in in Hx as [->|Hx].
        -- assert (y <> k) by (intros ->; apply Hn; left; reflexivity). lia.
        -- rewrite Forall_forall in Hall. apply Hall. exact Hx.
Qed.

Lemma sort_desc_sorted l : NoDup l -> StronglySorted Z.gt (sort_desc l).
Proof.
  induction l as [|y l IH]; intros Hnd; cbn [sort_desc fold_right]; [constructor|].
  change (fold_right insert_desc [] l) with (sort_desc l).
  inversion Hnd as [|? ? Hy Hl]; subst. apply insert_desc_sorted; [|apply IH; exact Hl].
  rewrite sort_desc_in. exact Hy.
Qed.

(* ---- consecutive inserts ----------------------------------------------------------------- *)
Lemma insert_at_length {A} i (x : A) l : length (insert_at i x l) = S (length l).
Proof.
  unfold insert_at. rewrite app_length. cbn [length]. rewrite firstn_length, skipn_length. lia.
Qed.

Lemma split_at {A} (a : list A) x c n :
  length a = n ->
  firstn (S n) (a ++ x :: c) = a ++ [x] /\ skipn (S n) (a ++ x :: c) = c /\ firstn n (a ++ x :: c) = a
  /\ skipn n (a ++ x :: c) = x :: c.
Proof.
  intros <-. repeat split.
  - rewrite firstn_app. replace (S (length a) - length a)%nat with 1%nat by lia.
    rewrite firstn_all2 by lia. reflexivity.
  - rewrite skipn_app. replace (S (length a) - length a)%nat with 1%nat by lia.
    rewrite skipn_all2 by lia. reflexivity.
  - rewrite firstn_app, Nat.sub_diag, firstn_all. cbn [firstn]. apply app_nil_r.
  - rewrite skipn_app, Nat.sub_diag, skipn_all. reflexivity.
Qed.

Lemma insert_at_split {A} i (x : A) l :
  (Z.to_nat i <= length l)%nat ->
  firstn (S (Z.to_nat i)) (insert_at i x l) = firstn (Z.to_nat i) l ++ [x]
  /\ skipn (S (Z.to_nat i)) (insert_at i x l) = skipn (Z.to_nat i) l.
Proof.
  intros H. unfold insert_at.
  destruct (split_at (firstn (Z.to_nat i) l) x (skipn (Z.to_nat i) l) (Z.to_nat i)) as [H1 [H2 _]].
  - apply firstn_length_le. exact H.
  - split; assumption.
Qed.

Lemma insert_names_fst loc names : forall i st,
  0 <= i -> (Z.to_nat i <= length (fst st))%nat ->
  fst (insert_names i loc names st)
  = firstn (Z.to_nat i) (fst st) ++ calls loc names ++ skipn (Z.to_nat i) (fst st).
Proof.
  induction names as [|n r IH]; intros i st Hi Hl; cbn [insert_names calls map app].
  - rewrite firstn_skipn. reflexivity.
  - rewrite IH; cbn [fst]; [|lia|rewrite insert_at_length; lia].
    replace (Z.to_nat (i + 1)) with (S (Z.to_nat i)) by lia.
    destruct (insert_at_split i (ProfCall n loc) (fst st) Hl) as [H1 H2]. rewrite H1, H2.
    rewrite <- app_assoc. reflexivity.
Qed.

(* ---- expand ---------------------------------------------------------------------------- *)
Lemma expand_app f : forall a i b,
  expand f i (a ++ b) = expand f i a ++ expand f (i + Z.of_nat (length a)) b.
Proof.
  induction a as [|s a IH]; intros i b; cbn [app expand length].
  - rewrite Z.add_0_r. reflexivity.
  - rewrite IH. replace (i + 1 + Z.of_nat (length a)) with (i + Z.of_nat (S (length a))) by lia.
    rewrite <- app_assoc. reflexivity.
Qed.

Lemma expand_ext f g : forall a i,
  (forall j, i <= j < i + Z.of_nat (length a) -> f j = g j) -> expand f i a = expand g i a.
Proof.
  induction a as [|s a IH]; intros i H; cbn [expand]; [reflexivity|].
  rewrite (H i) by (cbn [length]; lia). rewrite (IH (i + 1)); [reflexivity|].
  intros j Hj. apply H. cbn [length]. lia.
Qed.

Lemma expand_id f : forall a i,
  (forall j, i <= j < i + Z.of_nat (length a) -> f j = []) -> expand f i a = a.
Proof.
  induction a as [|s a IH]; intros i H; cbn [expand]; [reflexivity|].
  rewrite (H i) by (cbn [length]; lia). cbn [map app]. rewrite (IH (i + 1)); [reflexivity|].
  intros j Hj. apply H. cbn [length]. lia.
Qed.

Definition restrict (d : dict) (K : list Z) (j : Z) : list string :=
  if existsb (Z.eqb j) K then dict_names d j else [].

Lemma below_not_in k ks j :
  Forall (fun x => k > x) ks -> k <= j -> existsb (Z.eqb j) ks = false.
Proof.
  intros H Hj. induction H as [|x ks Hx _ IH]; [reflexivity|].
  cbn [existsb]. rewrite IH. destruct (Z.eqb_spec j x); [lia|reflexivity].
Qed.

Lemma dict_get_none_names d k : dict_get d k = None -> dict_names d k = [].
Proof. unfold dict_names. intros ->. reflexivity. Qed.

Lemma fold_expand d : forall ks, StronglySorted Z.gt ks ->
  forall st, fst (fold_left (insert_step d) ks st) = expand (restrict d ks) 0 (fst st).
Proof.
  induction ks as [|k ks IH]; intros Hs st.
  - cbn [fold_left]. symmetry. apply expand_id. intros j _. reflexivity.
  - inversion Hs as [|? ? Hs' Hall]; subst. cbn [fold_left]. rewrite IH by exact Hs'.
    assert (Hk_notin : existsb (Z.eqb k) ks = false) by (apply (below_not_in k ks k Hall); lia).
    unfold insert_step. destruct (dict_get d k) as [names|] eqn:Eg.
    2:{ apply expand_ext. intros j _. unfold restrict. cbn [existsb].
        destruct (Z.eqb_spec j k) as [->|]; [|reflexivity]. cbn [orb].
        rewrite (dict_get_none_names d k Eg). destruct (existsb (Z.eqb k) ks); reflexivity. }
    destruct (k <? 0) eqn:Ek.
    { apply expand_ext. intros j Hj. unfold restrict. cbn [existsb].
      destruct (Z.eqb_spec j k); [lia|reflexivity]. }
    destruct (nth_error (fst st) (Z.to_nat k)) as [s|] eqn:En.
    2:{ apply nth_error_None in En. apply expand_ext. intros j Hj. unfold restrict. cbn [existsb].
        destruct (Z.eqb_spec j k); [lia|reflexivity]. }
    destruct (nth_error_split (fst st) (Z.to_nat k) En) as [a [c [Eb La]]].
    assert (Hka : Z.of_nat (length a) = k) by lia.
    destruct (split_at a s c (Z.to_nat k) La) as [F1 [F2 _]].
    rewrite insert_names_fst; [|lia|rewrite Eb, app_length; cbn [length]; lia].
    replace (Z.to_nat (k + 1)) with (S (Z.to_nat k)) by lia.
    rewrite Eb, F1, F2.
    (* left: what the remaining (smaller) keys do to the list with the calls inserted *)
    rewrite (expand_app (restrict d ks) (a ++ [s]) 0 (calls (stmt_line s) names ++ c)).
    rewrite (expand_app (restrict d ks) a 0 [s]).
    rewrite (expand_app (restrict d (k :: ks)) a 0 (s :: c)).
    rewrite app_length. cbn [expand length]. rewrite app_nil_r.
    replace (0 + Z.of_nat (length a + 1)) with (k + 1) by lia.
    rewrite !Z.add_0_l, Hka.
    assert (R1 : restrict d ks k = []) by (unfold restrict; rewrite Hk_notin; reflexivity).
    rewrite R1. cbn [map app].
    rewrite (expand_id (restrict d ks) (calls (stmt_line s) names ++ c)).
    2:{ intros j Hj. unfold restrict. rewrite (below_not_in k ks j Hall) by (rewrite app_length in Hj; lia). reflexivity. }
    (* right: the interleaving for all keys *)
    assert (R2 : restrict d (k :: ks) k = names).
    { unfold restrict. cbn [existsb]. rewrite Z.eqb_refl. cbn [orb]. apply dict_get_names. exact Eg. }
    rewrite R2.
    rewrite (expand_id (restrict d (k :: ks)) c).
    2:{ intros j Hj. unfold restrict. cbn [existsb]. destruct (Z.eqb_spec j k); [lia|].
        rewrite (below_not_in k ks j Hall) by lia. reflexivity. }
    rewrite (expand_ext (restrict d ks) (restrict d (k :: ks)) a 0).
    2:{ intros j Hj. unfold restrict. cbn [existsb]. destruct (Z.eqb_spec j k); [lia|reflexivity]. }
    rewrite <- app_assoc. reflexivity.
Qed.

Lemma dict_get_notin d k : ~ In k (map fst d) -> dict_get d k = None.
Proof.
  induction d as [|[k0 vs] r IH]; cbn [dict_get map fst In]; intros H; [reflexivity|].
  destruct (Z.eqb_spec k0 k) as [->|]; [exfalso; apply H; left; reflexivity|].
  apply IH. intros Hin. apply H. right. exact Hin.
Qed.

(* the descending insertion is the interleaving *)
Theorem insert_regs_expand d body :
  NoDup (map fst d) -> fst (insert_regs d body) = expand (dict_names d) 0 body.
Proof.
  intros Hnd. unfold insert_regs. rewrite fold_expand by (apply sort_desc_sorted; exact Hnd).
  cbn [fst]. apply expand_ext. intros j _. unfold restrict.
  destruct (existsb (Z.eqb j) (sort_desc (map fst d))) eqn:E; [reflexivity|].
  symmetry. apply dict_get_none_names. apply dict_get_notin. intros Hin.
  assert (Hex : existsb (Z.eqb j) (sort_desc (map fst d)) = true).
  { apply existsb_exists. exists j. split; [apply sort_desc_in; exact Hin|apply Z.eqb_refl]. }
  congruence.
Qed.

(* an observer that ignores registration statements does not see the insertion *)
Lemma expand_fm {B} (g : stmt -> list B) f :
  (forall n loc, g (ProfCall n loc) = []) -> forall b i, flat_map g (expand f i b) = flat_map g b.
Proof.
  intros Hg. induction b as [|s r IH]; intros i; cbn [expand flat_map]; [reflexivity|].
  rewrite flat_map_app. change (map (fun n => ProfCall n (stmt_line s)) (f i)) with (calls (stmt_line s) (f i)).
  rewrite (calls_fm g _ _ Hg), IH. reflexivity.
Qed.

Lemma regs_app a b : regs (a ++ b) = regs a ++ regs b.
Proof. unfold regs. apply flat_map_app. Qed.

Lemma regs_cons s r : regs (s :: r) = regs_stmt s ++ regs r.
Proof. reflexivity. Qed.

Lemma regs_expand f : forall b i y,
  In y (regs (expand f i b))
  <-> (exists j, i <= j < i + Z.of_nat (length b) /\ In y (f j)) \/ In y (regs b).
Proof.
  induction b as [|s r IH]; intros i y.
  - cbn. split; [tauto|]. intros [[j [Hj _]]|[]]. lia.
  - cbn [expand]. change (map (fun n => ProfCall n (stmt_line s)) (f i)) with (calls (stmt_line s) (f i)).
    rewrite !regs_cons, regs_app, regs_calls, !in_app_iff, IH. cbn [length]. split.
    + intros [H|[H|[[j [Hj Hy]]|H]]].
      * right. left. exact H.
      * left. exists i. split; [lia|exact H].
      * left. exists j. split; [lia|exact Hy].
      * right. right. exact H.
    + intros [[j [Hj Hy]]|[H|H]].
      * destruct (Z.eq_dec j i) as [->|Hne]; [right; left; exact Hy|].
        right. right. left. exists j. split; [lia|exact Hy].
      * left. exact H.
      * right. right. right. exact H.
Qed.

(* ---- the registration statements _visit_import appends -------------------------------- *)
Lemma visit_names_all_prof loc ns : forall acc pi,
  forallb is_profcall acc = true ->
  forallb is_profcall (fst (fold_left (visit_name loc) ns (acc, pi))) = true.
Proof.
  induction ns as [|a ns IH]; intros acc pi H; cbn [fold_left]; [exact H|].
  unfold visit_name at 2. cbn [fst snd]. destruct (is_star a); [apply IH; exact H|].
  destruct (str_in (node_name a) pi); [apply IH; exact H|].
  apply IH. rewrite forallb_app, H. reflexivity.
Qed.

Lemma visit_import_names_all_prof loc pi ns :
  forallb is_profcall (fst (visit_import_names loc pi ns)) = true.
Proof. apply visit_names_all_prof. reflexivity. Qed.

(* they carry the given location and name non-star aliases of that import *)
Definition is_call_at (loc : option Z) (ok : string -> Prop) (s : stmt) : Prop :=
  match s with ProfCall n l => l = loc /\ ok n | _ => False end.

Definition alias_name_of (ns : list alias) (n : string) : Prop :=
  exists a, In a ns /\ is_star a = false /\ n = node_name a.

Lemma visit_names_shape loc ns : forall acc pi,
  Forall (is_call_at loc (alias_name_of ns)) acc ->
  Forall (is_call_at loc (alias_name_of ns)) (fst (fold_left (visit_name loc) ns (acc, pi))).
Proof.
  assert (Hweak : forall a ns0 l,
            Forall (is_call_at loc (alias_name_of ns0)) l ->
            Forall (is_call_at loc (alias_name_of (a :: ns0))) l).
  { intros a ns0 l. apply Forall_impl. intros s. destruct s; cbn; try tauto.
    intros [E [a0 [H1 H2]]]. split; [exact E|]. exists a0. split; [right; exact H1|exact H2]. }
  (* generalise: the accumulator may name aliases of a longer list *)
  assert (G : forall ns0 ns1 acc pi,
            (forall n, alias_name_of ns0 n -> alias_name_of ns1 n) ->
            Forall (is_call_at loc (alias_name_of ns1)) acc ->
            Forall (is_call_at loc (alias_name_of ns1)) (fst (fold_left (visit_name loc) ns0 (acc, pi)))).
  { induction ns0 as [|a ns0 IH]; intros ns1 acc pi Hsub Hacc; cbn [fold_left]; [exact Hacc|].
    assert (Hsub' : forall n, alias_name_of ns0 n -> alias_name_of ns1 n).
    { intros n [a0 [H1 H2]]. apply Hsub. exists a0. split; [right; exact H1|exact H2]. }
    unfold visit_name at 2. cbn [fst snd]. destruct (is_star a) eqn:Es; [apply IH; assumption|].
    destruct (str_in (node_name a) pi); [apply IH; assumption|].
    apply IH; [exact Hsub'|]. apply Forall_app. split; [exact Hacc|].
    constructor; [|constructor]. cbn. split; [reflexivity|].
    apply Hsub. exists a. split; [left; reflexivity|split; [exact Es|reflexivity]]. }
  intros acc pi Hacc. apply (G ns ns acc pi); [tauto|exact Hacc].
Qed.

Lemma visit_import_names_shape loc pi ns :
  Forall (is_call_at loc (alias_name_of ns)) (fst (visit_import_names loc pi ns)).
Proof. apply visit_names_shape. constructor. Qed.

(* ---- generic shape of a proof about visit: an observer that ignores what is added ------ *)
Section VisitObserver.
  Context {B : Type}.
  Variable g : stmt -> list B.                       (* observer on the rewritten tree *)
  Variable h : stmt -> list B.                       (* what it must equal on the original *)
  Variable imports : bool.
  Hypothesis g_prof : forall n loc, g (ProfCall n loc) = [].
  Hypothesis h_leaf_import : forall ns l, g (Import ns l) = h (Import ns l).
  Hypothesis h_leaf_from : forall m ns lv l, g (ImportFrom m ns lv l) = h (ImportFrom m ns lv l).
  Hypothesis h_leaf_other : forall i l, g (Other i l) = h (Other i l).
  Hypothesis h_leaf_prof : forall n loc, g (ProfCall n loc) = h (ProfCall n loc).
  Hypothesis h_func : forall a n ds b b' l,
    flat_map g b' = flat_map h b -> g (FuncDef a n (add_deco ds) b' l) = h (FuncDef a n ds b l).
  Hypothesis h_class : forall n i b b' l,
    flat_map g b' = flat_map h b -> g (ClassDef n i b' l) = h (ClassDef n i b l).
  Hypothesis h_comp : forall i bs bs' l,
    map fst bs' = map fst bs ->
    map (fun p => flat_map g (snd p)) bs' = map (fun p => flat_map h (snd p)) bs ->
    g (Compound i bs' l) = h (Compound i bs l).

  Lemma visit_observer_stmt : forall s pi, flat_map g (fst (visit_stmt imports pi s)) = h s.
  Proof.
    intros s.
    apply (stmt_ind'
             (fun s => forall pi, flat_map g (fst (visit_stmt imports pi s)) = h s)
             (fun b => forall pi, flat_map g (fst (visit_body imports pi b)) = flat_map h b)
             (fun bs => forall pi,
                  map fst (fst (visit_bodies imports pi bs)) = map fst bs
                  /\ map (fun p => flat_map g (snd p)) (fst (visit_bodies imports pi bs))
                     = map (fun p => flat_map h (snd p)) bs)).
    - intros pi. reflexivity.
    - intros s0 r Hs Hr pi. unfold visit_body in *. cbn [smap].
      specialize (Hs pi). destruct (visit_stmt imports pi s0) as [b1 pi1]. cbn [fst] in Hs.
      specialize (Hr pi1). destruct (smap (visit_stmt imports) pi1 r) as [r' pi2]. cbn [fst] in *.
      rewrite flat_map_app, Hs, Hr. reflexivity.
    - intros pi. split; reflexivity.
    - intros l b r Hb Hr pi. unfold visit_bodies in *. cbn [smap snd fst].
      specialize (Hb pi). unfold visit_body in Hb.
      destruct (smap (visit_stmt imports) pi b) as [b' pi1]. cbn [fst] in Hb.
      specialize (Hr pi1).
      destruct (smap _ pi1 r) as [r' pi2]. cbn [fst] in *. destruct Hr as [Hr1 Hr2].
      cbn [app map fst snd]. rewrite Hr1, Hr2, Hb. split; reflexivity.
    - intros a n ds b l Hb pi. cbn [visit_stmt]. specialize (Hb pi). unfold visit_body in Hb.
      destruct (smap (visit_stmt imports) pi b) as [b' pi']. cbn [fst flat_map] in *.
      rewrite app_nil_r. apply h_func. exact Hb.
    - intros n i b l Hb pi. cbn [visit_stmt]. specialize (Hb pi). unfold visit_body in Hb.
      destruct (smap (visit_stmt imports) pi b) as [b' pi']. cbn [fst flat_map] in *.
      rewrite app_nil_r. apply h_class. exact Hb.
    - intros ns l pi. cbn [visit_stmt]. destruct imports; [|cbn; rewrite app_nil_r; apply h_leaf_import].
      pose proof (visit_import_names_all_prof (Some l) pi ns) as Hp.
      destruct (visit_import_names (Some l) pi ns) as [extra pi']. cbn [fst flat_map] in *.
      rewrite (all_prof_fm g extra g_prof Hp), app_nil_r. apply h_leaf_import.
    - intros m ns lv l pi. cbn [visit_stmt].
      destruct (imports && negb (from_future m)); [|cbn; rewrite app_nil_r; apply h_leaf_from].
      pose proof (visit_import_names_all_prof (Some l) pi ns) as Hp.
      destruct (visit_import_names (Some l) pi ns) as [extra pi']. cbn [fst flat_map] in *.
      rewrite (all_prof_fm g extra g_prof Hp), app_nil_r. apply h_leaf_from.
    - intros i bs l Hbs pi. cbn [visit_stmt]. specialize (Hbs pi). unfold visit_bodies in Hbs.
      destruct (smap _ pi bs) as [bs' pi']. cbn [fst flat_map] in *. destruct Hbs as [H1 H2].
      rewrite app_nil_r. apply h_comp; assumption.
    - intros i l pi. cbn. rewrite app_nil_r. apply h_leaf_other.
    - intros n loc pi. cbn. rewrite app_nil_r. apply h_leaf_prof.
  Qed.

  Lemma visit_observer_body : forall b pi, flat_map g (fst (visit_body imports pi b)) = flat_map h b.
  Proof.
    induction b as [|s r IH]; intros pi; [reflexivity|].
    unfold visit_body in *. cbn [smap].
    pose proof (visit_observer_stmt s pi) as Hs.
    destruct (visit_stmt imports pi s) as [b1 pi1]. cbn [fst] in Hs.
    specialize (IH pi1). destruct (smap (visit_stmt imports) pi1 r) as [r' pi2]. cbn [fst] in *.
    rewrite flat_map_app, Hs, IH. reflexivity.
  Qed.
End VisitObserver.

(* ---- erase ---------------------------------------------------------------------------- *)
Lemma rm_profile_add_deco ds : rm_profile (add_deco ds) = rm_profile ds.
Proof.
  unfold add_deco. destruct (has_profile ds); [reflexivity|].
  unfold rm_profile. rewrite filter_app. cbn. rewrite app_nil_r. reflexivity.
Qed.

Lemma erase_bodies_eq (bs bs' : list (Z * list stmt)) :
  map fst bs' = map fst bs ->
  map (fun p => flat_map erase_stmt (snd p)) bs' = map (fun p => flat_map erase_stmt (snd p)) bs ->
  map (fun p => (fst p, flat_map erase_stmt (snd p))) bs'
  = map (fun p => (fst p, flat_map erase_stmt (snd p))) bs.
Proof.
  revert bs. induction bs' as [|p bs' IH]; intros [|q bs] H1 H2; cbn [map] in *; try discriminate; try reflexivity.
  inversion H1 as [[E1 E1']]. inversion H2 as [[E2 E2']].
  rewrite E1, E2, (IH bs E1' E2'). reflexivity.
Qed.

Lemma erase_visit imports b pi : erase (fst (visit_body imports pi b)) = erase b.
Proof.
  unfold erase. apply (visit_observer_body erase_stmt erase_stmt imports); try reflexivity.
  - intros a n ds b0 b' l H. cbn [erase_stmt]. rewrite rm_profile_add_deco, H. reflexivity.
  - intros n i b0 b' l H. cbn [erase_stmt]. rewrite H. reflexivity.
  - intros i bs bs' l H1 H2. cbn [erase_stmt]. rewrite (erase_bodies_eq bs bs' H1 H2). reflexivity.
Qed.

Lemma erase_fix : forall b pl, erase (fix_locs pl b) = erase b.
Proof.
  intros b.
  apply (body_ind'
           (fun s => forall pl, erase_stmt (fix_stmt pl s) = erase_stmt s)
           (fun b => forall pl, erase (fix_locs pl b) = erase b)
           (fun bs => map (fun p => (fst p, flat_map erase_stmt (snd p)))
                          (map (fun p => (fst p, map (fix_stmt (fst p)) (snd p))) bs)
                      = map (fun p => (fst p, flat_map erase_stmt (snd p))) bs)).
  - reflexivity.
  - intros s r Hs Hr pl. unfold erase, fix_locs in *. cbn [map flat_map]. rewrite Hs, Hr. reflexivity.
  - reflexivity.
  - intros l b0 r Hb Hr. cbn [map fst snd]. rewrite Hr. unfold erase, fix_locs in Hb. rewrite Hb. reflexivity.
  - intros a n ds b0 l Hb pl. cbn [fix_stmt erase_stmt]. unfold erase, fix_locs in Hb. rewrite Hb. reflexivity.
  - intros n i b0 l Hb pl. cbn [fix_stmt erase_stmt]. unfold erase, fix_locs in Hb. rewrite Hb. reflexivity.
  - reflexivity.
  - reflexivity.
  - intros i bs l Hbs pl. cbn [fix_stmt erase_stmt]. rewrite Hbs. reflexivity.
  - reflexivity.
  - intros n [l|] pl; reflexivity.
Qed.

(* the three stages of the pipeline, with the first one in interleaved form *)
Definition stage1 (c : cfg) (body : list stmt) : list stmt :=
  expand (dict_names (select (c_sel c) (pre c body))) 0 (pre c body).

Definition stage2 (c : cfg) (body : list stmt) : list stmt :=
  if c_full c
  then fst (visit_body (c_imports c) (snd (insert_regs (select (c_sel c) (pre c body)) (pre c body)))
                       (stage1 c body))
  else stage1 c body.

Lemma transform_stages c body : transform c body = fix_locs 1 (stage2 c body).
Proof.
  unfold transform, profile_ast_tree, stage2, stage1.
  rewrite (insert_regs_expand _ _ (select_keys_nodup (c_sel c) (pre c body))). reflexivity.
Qed.

Theorem erase_transform c body : erase (transform c body) = erase (pre c body).
Proof.
  rewrite transform_stages, erase_fix. unfold stage2.
  destruct (c_full c); [rewrite erase_visit|]; unfold stage1, erase; apply expand_fm; reflexivity.
Qed.

(* on a program without `profile` decorators / registration calls erase is the identity *)
Lemma rm_profile_clean ds : has_profile ds = false -> rm_profile ds = ds.
Proof.
  unfold has_profile, rm_profile. induction ds as [|d ds IH]; cbn [existsb filter]; [reflexivity|].
  intros H. apply orb_false_elim in H as [H1 H2]. rewrite H1. cbn [negb]. rewrite IH by exact H2. reflexivity.
Qed.

Lemma erase_clean : forall b, clean b = true -> erase b = b.
Proof.
  intros b.
  apply (body_ind'
           (fun s => clean_stmt s = true -> erase_stmt s = [s])
           (fun b => clean b = true -> erase b = b)
           (fun bs => forallb (fun p => forallb clean_stmt (snd p)) bs = true ->
                      map (fun p => (fst p, flat_map erase_stmt (snd p))) bs = bs)).
  - reflexivity.
  - intros s r Hs Hr H. unfold clean, erase in *. cbn [forallb flat_map] in *.
    apply andb_prop in H as [H1 H2]. rewrite Hs, Hr by assumption. reflexivity.
  - reflexivity.
  - intros l b0 r Hb Hr H. cbn [forallb map fst snd] in *. apply andb_prop in H as [H1 H2].
    unfold clean, erase in Hb. rewrite Hb, Hr by assumption. reflexivity.
  - intros a n ds b0 l Hb H. cbn [clean_stmt erase_stmt] in *. apply andb_prop in H as [H1 H2].
    unfold clean, erase in Hb. rewrite Hb by exact H2. rewrite rm_profile_clean; [reflexivity|].
    destruct (has_profile ds); [discriminate|reflexivity].
  - intros n i b0 l Hb H. cbn [clean_stmt erase_stmt] in *. unfold clean, erase in Hb. rewrite Hb by exact H. reflexivity.
  - reflexivity.
  - reflexivity.
  - intros i bs l Hbs H. cbn [clean_stmt erase_stmt] in *. rewrite Hbs by exact H. reflexivity.
  - reflexivity.
  - intros n loc H. discriminate.
Qed.

Theorem erase_transform_clean c body :
  clean (pre c body) = true -> erase (transform c body) = pre c body.
Proof. intros Hc. rewrite erase_transform. apply erase_clean. exact Hc. Qed.

(* ---- function headers ---------------------------------------------------------------- *)
Lemma funcs_bodies_eq (g h : stmt -> list fhead) (bs bs' : list (Z * list stmt)) :
  map (fun p => flat_map g (snd p)) bs' = map (fun p => flat_map h (snd p)) bs ->
  flat_map (fun p => flat_map g (snd p)) bs' = flat_map (fun p => flat_map h (snd p)) bs.
Proof.
  revert bs. induction bs' as [|p bs' IH]; intros [|q bs] H; cbn [map flat_map] in *; try discriminate; try reflexivity.
  inversion H. rewrite (IH bs) by assumption. congruence.
Qed.

Definition deco_funcs_stmt (s : stmt) : list fhead := map deco_once (funcs_stmt s).

Lemma map_flat_map {A B C} (f : B -> C) (g : A -> list B) l :
  map f (flat_map g l) = flat_map (fun a => map f (g a)) l.
Proof. induction l as [|a l IH]; cbn [flat_map map]; [reflexivity|]. rewrite map_app, IH. reflexivity. Qed.

Lemma funcs_visit imports b pi :
  funcs (fst (visit_body imports pi b)) = map deco_once (funcs b).
Proof.
  unfold funcs. rewrite map_flat_map.
  apply (visit_observer_body funcs_stmt deco_funcs_stmt imports); try reflexivity.
  - intros a n ds b0 b' l H. unfold deco_funcs_stmt. cbn [funcs_stmt map]. unfold deco_once at 1. cbn.
    f_equal. rewrite H. rewrite map_flat_map. reflexivity.
  - intros n i b0 b' l H. unfold deco_funcs_stmt. cbn [funcs_stmt]. rewrite H, map_flat_map. reflexivity.
  - intros i bs bs' l H1 H2. unfold deco_funcs_stmt. cbn [funcs_stmt].
    rewrite (funcs_bodies_eq funcs_stmt deco_funcs_stmt bs bs' H2).
    rewrite map_flat_map. apply flat_map_ext. intros p. unfold deco_funcs_stmt. rewrite map_flat_map. reflexivity.
Qed.

Lemma funcs_fix : forall b pl, funcs (fix_locs pl b) = funcs b.
Proof.
  intros b.
  apply (body_ind'
           (fun s => forall pl, funcs_stmt (fix_stmt pl s) = funcs_stmt s)
           (fun b => forall pl, funcs (fix_locs pl b) = funcs b)
           (fun bs => flat_map (fun p => flat_map funcs_stmt (snd p))
                               (map (fun p => (fst p, map (fix_stmt (fst p)) (snd p))) bs)
                      = flat_map (fun p => flat_map funcs_stmt (snd p)) bs)).
  - reflexivity.
  - intros s r Hs Hr pl. unfold funcs, fix_locs in *. cbn [map flat_map]. rewrite Hs, Hr. reflexivity.
  - reflexivity.
  - intros l b0 r Hb Hr. cbn [map flat_map fst snd]. rewrite Hr. unfold funcs, fix_locs in Hb. rewrite Hb. reflexivity.
  - intros a n ds b0 l Hb pl. cbn [fix_stmt funcs_stmt]. unfold funcs, fix_locs in Hb. rewrite Hb. reflexivity.
  - intros n i b0 l Hb pl. cbn [fix_stmt funcs_stmt]. unfold funcs, fix_locs in Hb. rewrite Hb. reflexivity.
  - reflexivity.
  - reflexivity.
  - intros i bs l Hbs pl. cbn [fix_stmt funcs_stmt]. rewrite Hbs. reflexivity.
  - reflexivity.
  - intros n [l|] pl; reflexivity.
Qed.

Theorem funcs_transform c body :
  funcs (transform c body) = if c_full c then map deco_once (funcs (pre c body)) else funcs (pre c body).
Proof.
  rewrite transform_stages, funcs_fix. unfold stage2.
  destruct (c_full c); [rewrite funcs_visit; f_equal|]; unfold stage1, funcs; apply expand_fm; reflexivity.
Qed.

(* every function of a clean program has no `profile` decorator ... *)
Lemma funcs_clean : forall b, clean b = true ->
  forall f, In f (funcs b) -> has_profile (fh_decos f) = false.
Proof.
  intros b.
  apply (body_ind'
           (fun s => clean_stmt s = true -> forall f, In f (funcs_stmt s) -> has_profile (fh_decos f) = false)
           (fun b => clean b = true -> forall f, In f (funcs b) -> has_profile (fh_decos f) = false)
           (fun bs => forallb (fun p => forallb clean_stmt (snd p)) bs = true ->
                      forall f, In f (flat_map (fun p => flat_map funcs_stmt (snd p)) bs) ->
                                has_profile (fh_decos f) = false)).
  - intros _ f [].
  - intros s r Hs Hr H f Hf. unfold clean, funcs in *. cbn [forallb flat_map] in *.
    apply andb_prop in H as [H1 H2]. apply in_app_iff in Hf as [Hf|Hf]; [apply Hs|apply Hr]; assumption.
  - intros _ f [].
  - intros l b0 r Hb Hr H f Hf. cbn [forallb flat_map snd] in *. apply andb_prop in H as [H1 H2].
    apply in_app_iff in Hf as [Hf|Hf]; [apply Hb|apply Hr]; assumption.
  - intros a n ds b0 l Hb H f Hf. cbn [clean_stmt funcs_stmt In] in *. apply andb_prop in H as [H1 H2].
    destruct Hf as [<-|Hf]; [|apply Hb; assumption].
    cbn [fh_decos]. destruct (has_profile ds); [discriminate H1|reflexivity].
  - intros n i b0 l Hb H f Hf. apply Hb; assumption.
  - intros ns l _ f [].
  - intros m ns lv l _ f [].
  - intros i bs l Hbs H f Hf. apply Hbs; assumption.
  - intros i l _ f [].
  - intros n loc H. discriminate.
Qed.

(* ... so after the rewrite each has exactly one, in the innermost position *)
Lemma once_innermost_deco_once f :
  has_profile (fh_decos f) = false -> once_innermost (deco_once f) = true.
Proof.
  intros H. unfold once_innermost, deco_once, add_deco. cbn [fh_decos]. rewrite H.
  unfold count_profile, last_is_profile. rewrite filter_app, rev_app_distr. cbn.
  assert (E : filter is_profile (fh_decos f) = []).
  { unfold has_profile in H. induction (fh_decos f) as [|d ds IH]; [reflexivity|].
    cbn [existsb filter] in *. apply orb_false_elim in H as [H1 H2]. rewrite H1. apply IH. exact H2. }
  rewrite E. reflexivity.
Qed.

Lemma has_profile_deco_once f : has_profile (fh_decos (deco_once f)) = true.
Proof.
  unfold deco_once, add_deco. cbn [fh_decos]. destruct (has_profile (fh_decos f)) eqn:E; [exact E|].
  unfold has_profile. rewrite existsb_app. cbn. apply orb_true_r.
Qed.

Theorem whole_script_once_innermost c body :
  c_full c = true -> clean (pre c body) = true ->
  forall f, In f (funcs (transform c body)) -> once_innermost f = true.
Proof.
  intros Hf Hc f Hin. rewrite funcs_transform, Hf in Hin.
  apply in_map_iff in Hin as [f0 [<- Hin]]. apply once_innermost_deco_once.
  apply (funcs_clean (pre c body) Hc f0 Hin).
Qed.

Theorem whole_script_all_profiled c body :
  c_full c = true -> forall f, In f (funcs (transform c body)) -> has_profile (fh_decos f) = true.
Proof.
  intros Hf f Hin. rewrite funcs_transform, Hf in Hin.
  apply in_map_iff in Hin as [f0 [<- _]]. apply has_profile_deco_once.
Qed.

(* ---- line numbers ---------------------------------------------------------------------- *)
Lemma lines_erase : forall b, lines (erase b) = lines b.
Proof.
  intros b.
  apply (body_ind'
           (fun s => lines (erase_stmt s) = lines_stmt s)
           (fun b => lines (erase b) = lines b)
           (fun bs => flat_map (fun p => fst p :: flat_map lines_stmt (snd p))
                               (map (fun p => (fst p, flat_map erase_stmt (snd p))) bs)
                      = flat_map (fun p => fst p :: flat_map lines_stmt (snd p)) bs)).
  - reflexivity.
  - intros s r Hs Hr. unfold lines, erase in *. cbn [flat_map]. rewrite flat_map_app, Hs, Hr. reflexivity.
  - reflexivity.
  - intros l b0 r Hb Hr. cbn [map flat_map fst snd]. rewrite Hr. unfold lines, erase in Hb. rewrite Hb. reflexivity.
  - intros a n ds b0 l Hb. unfold lines, erase in *. cbn [erase_stmt flat_map lines_stmt]. rewrite Hb, app_nil_r. reflexivity.
  - intros n i b0 l Hb. unfold lines, erase in *. cbn [erase_stmt flat_map lines_stmt]. rewrite Hb, app_nil_r. reflexivity.
  - reflexivity.
  - reflexivity.
  - intros i bs l Hbs. unfold lines. cbn [erase_stmt flat_map lines_stmt]. rewrite Hbs, app_nil_r. reflexivity.
  - reflexivity.
  - reflexivity.
Qed.

Lemma lines_abs m : forall b, lines (absolutize m b) = lines b.
Proof.
  intros b.
  apply (body_ind'
           (fun s => lines_stmt (abs_stmt m s) = lines_stmt s)
           (fun b => lines (absolutize m b) = lines b)
           (fun bs => flat_map (fun p => fst p :: flat_map lines_stmt (snd p))
                               (map (fun p => (fst p, map (abs_stmt m) (snd p))) bs)
                      = flat_map (fun p => fst p :: flat_map lines_stmt (snd p)) bs)).
  - reflexivity.
  - intros s r Hs Hr. unfold lines, absolutize in *. cbn [map flat_map]. rewrite Hs, Hr. reflexivity.
  - reflexivity.
  - intros l b0 r Hb Hr. cbn [map flat_map fst snd]. rewrite Hr. unfold lines, absolutize in Hb. rewrite Hb. reflexivity.
  - intros a n ds b0 l Hb. cbn [abs_stmt lines_stmt]. unfold lines, absolutize in Hb. rewrite Hb. reflexivity.
  - intros n i b0 l Hb. cbn [abs_stmt lines_stmt]. unfold lines, absolutize in Hb. rewrite Hb. reflexivity.
  - reflexivity.
  - intros md ns lv l. cbn [abs_stmt]. destruct (Z.eqb lv 0); [reflexivity|].
    destruct (get_module_from_importfrom lv md m); reflexivity.
  - intros i bs l Hbs. cbn [abs_stmt lines_stmt]. rewrite Hbs. reflexivity.
  - reflexivity.
  - reflexivity.
Qed.

Theorem lines_transform c body : lines (transform c body) = lines body.
Proof.
  rewrite <- (lines_erase (transform c body)), erase_transform, lines_erase.
  unfold pre. destruct (c_module c); [apply lines_abs|reflexivity].
Qed.

(* ---- names handed to registration calls ------------------------------------------------ *)
Lemma regs_fix : forall b pl, regs (fix_locs pl b) = regs b.
Proof.
  intros b.
  apply (body_ind'
           (fun s => forall pl, regs_stmt (fix_stmt pl s) = regs_stmt s)
           (fun b => forall pl, regs (fix_locs pl b) = regs b)
           (fun bs => flat_map (fun p => flat_map regs_stmt (snd p))
                               (map (fun p => (fst p, map (fix_stmt (fst p)) (snd p))) bs)
                      = flat_map (fun p => flat_map regs_stmt (snd p)) bs)).
  - reflexivity.
  - intros s r Hs Hr pl. unfold regs, fix_locs in *. cbn [map flat_map]. rewrite Hs, Hr. reflexivity.
  - reflexivity.
  - intros l b0 r Hb Hr. cbn [map flat_map fst snd]. rewrite Hr. unfold regs, fix_locs in Hb. rewrite Hb. reflexivity.
  - intros a n ds b0 l Hb pl. cbn [fix_stmt regs_stmt]. unfold regs, fix_locs in Hb. rewrite Hb. reflexivity.
  - intros n i b0 l Hb pl. cbn [fix_stmt regs_stmt]. unfold regs, fix_locs in Hb. rewrite Hb. reflexivity.
  - reflexivity.
  - reflexivity.
  - intros i bs l Hbs pl. cbn [fix_stmt regs_stmt]. rewrite Hbs. reflexivity.
  - reflexivity.
  - intros n [l|] pl; reflexivity.
Qed.

(* without --prof-imports the transformer adds no registration call *)
Lemma regs_visit_noimports b pi : regs (fst (visit_body false pi b)) = regs b.
Proof.
  unfold regs.
  apply (body_ind'
           (fun s => forall pi, flat_map regs_stmt (fst (visit_stmt false pi s)) = regs_stmt s)
           (fun b => forall pi, flat_map regs_stmt (fst (visit_body false pi b)) = flat_map regs_stmt b)
           (fun bs => forall pi,
                flat_map (fun p => flat_map regs_stmt (snd p)) (fst (visit_bodies false pi bs))
                = flat_map (fun p => flat_map regs_stmt (snd p)) bs)).
  - reflexivity.
  - intros s r Hs Hr pi0. unfold visit_body in *. cbn [smap].
    specialize (Hs pi0). destruct (visit_stmt false pi0 s) as [b1 pi1]. cbn [fst] in Hs.
    specialize (Hr pi1). destruct (smap (visit_stmt false) pi1 r) as [r' pi2]. cbn [fst] in *.
    cbn [flat_map]. rewrite flat_map_app, Hs, Hr. reflexivity.
  - reflexivity.
  - intros l b0 r Hb Hr pi0. unfold visit_bodies in *. cbn [smap snd fst].
    specialize (Hb pi0). unfold visit_body in Hb.
    destruct (smap (visit_stmt false) pi0 b0) as [b' pi1]. cbn [fst] in Hb.
    specialize (Hr pi1). destruct (smap _ pi1 r) as [r' pi2]. cbn [fst] in *.
    cbn [app flat_map snd]. rewrite Hr, Hb. reflexivity.
  - intros a n ds b0 l Hb pi0. cbn [visit_stmt]. specialize (Hb pi0). unfold visit_body in Hb.
    destruct (smap (visit_stmt false) pi0 b0) as [b' pi']. cbn [fst flat_map regs_stmt] in *.
    rewrite app_nil_r. exact Hb.
  - intros n i b0 l Hb pi0. cbn [visit_stmt]. specialize (Hb pi0). unfold visit_body in Hb.
    destruct (smap (visit_stmt false) pi0 b0) as [b' pi']. cbn [fst flat_map regs_stmt] in *.
    rewrite app_nil_r. exact Hb.
  - reflexivity.
  - reflexivity.
  - intros i bs l Hbs pi0. cbn [visit_stmt]. specialize (Hbs pi0). unfold visit_bodies in Hbs.
    destruct (smap _ pi0 bs) as [bs' pi']. cbn [fst flat_map regs_stmt] in *.
    rewrite app_nil_r. exact Hbs.
  - reflexivity.
  - reflexivity.
Qed.

(* every binding sits at an index of the body, on an import statement that is neither a
   __future__ import nor a bare relative one *)
Definition profilable_import (s : stmt) : Prop :=
  match s with
  | Import _ _ => True
  | ImportFrom (Some m) _ _ _ => future_module m = false
  | _ => False
  end.

Lemma all_bindings_from_at body : forall i m,
  In m (all_bindings_from i body) ->
  i <= i_idx m < i + Z.of_nat (length body)
  /\ exists s, nth_error body (Z.to_nat (i_idx m - i)) = Some s /\ profilable_import s.
Proof.
  induction body as [|s r IH]; intros i m Hin; [destruct Hin|].
  cbn [all_bindings_from] in Hin. apply in_app_iff in Hin as [Hin|Hin].
  - assert (Hidx : i_idx m = i /\ profilable_import s).
    { destruct s as [a n ds b l|n i0 b l|ns l|md ns lv l|i0 bs l|i0 l|n loc]; cbn [binds_of_stmt] in Hin;
        try (destruct Hin; fail).
      - apply in_map_iff in Hin as [a [<- _]]. split; [reflexivity|exact I].
      - destruct md as [md|]; [|destruct Hin]. destruct (future_module md) eqn:Ef; [destruct Hin|].
        apply in_map_iff in Hin as [a [<- _]]. split; [reflexivity|exact Ef]. }
    destruct Hidx as [-> Hp]. split; [cbn [length]; lia|].
    exists s. rewrite Z.sub_diag. split; [reflexivity|exact Hp].
  - destruct (IH (i + 1) m Hin) as [Hr [s0 [Hn Hp]]]. split; [cbn [length]; lia|].
    exists s0. split; [|exact Hp].
    replace (Z.to_nat (i_idx m - i)) with (S (Z.to_nat (i_idx m - (i + 1)))) by lia. exact Hn.
Qed.

Lemma wanted_at S body k y :
  In (k, y) (wanted S body) ->
  0 <= k < Z.of_nat (length body)
  /\ exists s, nth_error body (Z.to_nat k) = Some s /\ profilable_import s.
Proof.
  unfold wanted. intros H. apply in_map_iff in H as [m [E Hm]]. apply filter_In in Hm as [Hm _].
  apply in_first_by_name in Hm. destruct (all_bindings_from_at body 0 m Hm) as [Hr [s [Hn Hp]]].
  inversion E; subst. split; [lia|]. exists s. rewrite Z.sub_0_r in Hn. split; assumption.
Qed.

Lemma select_names_at S body k y :
  In y (dict_names (select S body) k) ->
  0 <= k < Z.of_nat (length body)
  /\ exists s, nth_error body (Z.to_nat k) = Some s /\ profilable_import s.
Proof.
  intros H. apply dict_names_items in H. apply selection_exact in H. apply (wanted_at S body k y H).
Qed.

(* exactly the selected names are handed to registration calls (unless --prof-imports
   together with the whole script asks for all imports) *)
Theorem regs_transform c body :
  c_full c = false \/ c_imports c = false ->
  forall y, In y (regs (transform c body))
            <-> In y (map snd (wanted (c_sel c) (pre c body))) \/ In y (regs (pre c body)).
Proof.
  intros Hcfg y. rewrite transform_stages, regs_fix.
  assert (H1 : In y (regs (stage1 c body))
               <-> In y (map snd (wanted (c_sel c) (pre c body))) \/ In y (regs (pre c body))).
  { unfold stage1. rewrite regs_expand. split.
    - intros [[j [_ Hy]]|Hr]; [left|right; exact Hr].
      apply dict_names_items in Hy. apply selection_exact in Hy.
      apply in_map_iff. exists (j, y). split; [reflexivity|exact Hy].
    - intros [Hm|Hr]; [left|right; exact Hr].
      apply in_map_iff in Hm as [[k v] [E Hin]]. cbn [snd] in E. subst v. exists k. split.
      + destruct (wanted_at _ _ _ _ Hin) as [Hr _]. lia.
      + apply dict_items_names; [apply select_keys_nodup|]. apply selection_exact. exact Hin. }
  unfold stage2. destruct (c_full c) eqn:Ef; [|exact H1].
  destruct Hcfg as [Hf|Hi]; [discriminate|]. rewrite Hi, regs_visit_noimports. exact H1.
Qed.
