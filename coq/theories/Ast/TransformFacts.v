(* Facts about Ast/Transform.v, all by structural induction over the nested tree
   (unbounded depth): what the rewrite adds is only `profile` decorators and
   registration statements. *)
From LP Require Import Prelude.Py Prelude.PyLemmas Gen.RelImport
     Ast.AstLite Ast.AuxStr Ast.Select Ast.Transform.

(* ---- small list facts ---------------------------------------------------------------- *)
Lemma fm_insert_nil {A B} (g : A -> list B) i x (l : list A) :
  g x = [] -> flat_map g (insert_at i x l) = flat_map g l.
Proof.
  intros H. unfold insert_at. rewrite flat_map_app. cbn [flat_map]. rewrite H. cbn [app].
  rewrite <- flat_map_app, firstn_skipn. reflexivity.
Qed.

Lemma fm_insert_in {A B} (g : A -> list B) i x (l : list A) y :
  In y (flat_map g (insert_at i x l)) <-> In y (g x) \/ In y (flat_map g l).
Proof.
  unfold insert_at. rewrite <- (firstn_skipn (Z.to_nat i) l) at 3.
  rewrite !flat_map_app. cbn [flat_map]. rewrite !in_app_iff. tauto.
Qed.

Definition is_profcall (s : stmt) : bool := match s with ProfCall _ _ => true | _ => false end.

Lemma all_prof_fm {B} (g : stmt -> list B) (l : list stmt) :
  (forall n loc, g (ProfCall n loc) = []) -> forallb is_profcall l = true -> flat_map g l = [].
Proof.
  intros Hg. induction l as [|s l IH]; cbn [forallb flat_map]; [reflexivity|].
  intros H. apply andb_prop in H as [Hs Hl]. destruct s; try discriminate Hs.
  rewrite Hg, IH by exact Hl. reflexivity.
Qed.

(* ---- the registration statements _visit_import appends -------------------------------- *)
Lemma visit_names_all_prof ns : forall acc pi,
  forallb is_profcall acc = true ->
  forallb is_profcall (fst (fold_left visit_name ns (acc, pi))) = true.
Proof.
  induction ns as [|a ns IH]; intros acc pi H; cbn [fold_left]; [exact H|].
  unfold visit_name at 2. cbn [fst snd]. destruct (str_in (node_name a) pi); [apply IH; exact H|].
  apply IH. rewrite forallb_app, H. reflexivity.
Qed.

Lemma visit_import_names_all_prof pi ns :
  forallb is_profcall (fst (visit_import_names pi ns)) = true.
Proof. apply visit_names_all_prof. reflexivity. Qed.

(* names registered by _visit_import are names bound by that import *)
Lemma visit_names_regs ns : forall acc pi y,
  In y (top_regs (fst (fold_left visit_name ns (acc, pi)))) ->
  In y (top_regs acc) \/ In y (map node_name ns).
Proof.
  induction ns as [|a ns IH]; intros acc pi y; cbn [fold_left map In]; [auto|].
  unfold visit_name at 2. cbn [fst snd]. destruct (str_in (node_name a) pi).
  - intros H. apply IH in H as [H|H]; auto.
  - intros H. apply IH in H as [H|H]; [|auto].
    unfold top_regs in H. rewrite flat_map_app, in_app_iff in H. cbn in H.
    destruct H as [H|[H|[]]]; auto.
Qed.

(* ---- generic shape of a proof about visit: an observer that ignores what is added ------ *)
Section VisitObserver.
  Context {B : Type}.
  Variable g : stmt -> list B.                       (* observer on the rewritten tree *)
  Variable h : stmt -> list B.                       (* what it must equal on the original *)
  Variable imports : bool.
  Hypothesis g_prof : forall n loc, g (ProfCall n loc) = [].
  Hypothesis h_leaf_import : forall ns l, g (Import ns l) = h (Import ns l).
  Hypothesis h_leaf_from : forall m ns lv l, g (ImportFrom m ns lv l) = h (ImportFrom m ns lv l).
  Hypothesis h_leaf_other : forall i l, g (Other i l) = h (Other i l).
  Hypothesis h_leaf_prof : forall n loc, g (ProfCall n loc) = h (ProfCall n loc).
  Hypothesis h_func : forall a n ds b b' l,
    flat_map g b' = flat_map h b -> g (FuncDef a n (add_deco ds) b' l) = h (FuncDef a n ds b l).
  Hypothesis h_class : forall n i b b' l,
    flat_map g b' = flat_map h b -> g (ClassDef n i b' l) = h (ClassDef n i b l).
  Hypothesis h_comp : forall i bs bs' l,
    map fst bs' = map fst bs ->
    map (fun p => flat_map g (snd p)) bs' = map (fun p => flat_map h (snd p)) bs ->
    g (Compound i bs' l) = h (Compound i bs l).

  Lemma visit_observer_stmt : forall s pi, flat_map g (fst (visit_stmt imports pi s)) = h s.
  Proof.
    intros s.
    apply (stmt_ind'
             (fun s => forall pi, flat_map g (fst (visit_stmt imports pi s)) = h s)
             (fun b => forall pi, flat_map g (fst (visit_body imports pi b)) = flat_map h b)
             (fun bs => forall pi,
                  map fst (fst (visit_bodies imports pi bs)) = map fst bs
                  /\ map (fun p => flat_map g (snd p)) (fst (visit_bodies imports pi bs))
                     = map (fun p => flat_map h (snd p)) bs)).
    - intros pi. reflexivity.
    - intros s0 r Hs Hr pi. unfold visit_body in *. cbn [smap].
      specialize (Hs pi). destruct (visit_stmt imports pi s0) as [b1 pi1]. cbn [fst] in Hs.
      specialize (Hr pi1). destruct (smap (visit_stmt imports) pi1 r) as [r' pi2]. cbn [fst] in *.
      rewrite flat_map_app, Hs, Hr. reflexivity.
    - intros pi. split; reflexivity.
    - intros l b r Hb Hr pi. unfold visit_bodies in *. cbn [smap snd fst].
      specialize (Hb pi). unfold visit_body in Hb.
      destruct (smap (visit_stmt imports) pi b) as [b' pi1]. cbn [fst] in Hb.
      specialize (Hr pi1).
      destruct (smap _ pi1 r) as [r' pi2]. cbn [fst] in *. destruct Hr as [Hr1 Hr2].
      cbn [app map fst snd]. rewrite Hr1, Hr2, Hb. split; reflexivity.
    - intros a n ds b l Hb pi. cbn [visit_stmt]. specialize (Hb pi). unfold visit_body in Hb.
      destruct (smap (visit_stmt imports) pi b) as [b' pi']. cbn [fst flat_map] in *.
      rewrite app_nil_r. apply h_func. exact Hb.
    - intros n i b l Hb pi. cbn [visit_stmt]. specialize (Hb pi). unfold visit_body in Hb.
      destruct (smap (visit_stmt imports) pi b) as [b' pi']. cbn [fst flat_map] in *.
      rewrite app_nil_r. apply h_class. exact Hb.
    - intros ns l pi. cbn [visit_stmt]. destruct imports; [|cbn; rewrite app_nil_r; apply h_leaf_import].
      pose proof (visit_import_names_all_prof pi ns) as Hp.
      destruct (visit_import_names pi ns) as [extra pi']. cbn [fst flat_map] in *.
      rewrite (all_prof_fm g extra g_prof Hp), app_nil_r. apply h_leaf_import.
    - intros m ns lv l pi. cbn [visit_stmt]. destruct imports; [|cbn; rewrite app_nil_r; apply h_leaf_from].
      pose proof (visit_import_names_all_prof pi ns) as Hp.
      destruct (visit_import_names pi ns) as [extra pi']. cbn [fst flat_map] in *.
      rewrite (all_prof_fm g extra g_prof Hp), app_nil_r. apply h_leaf_from.
    - intros i bs l Hbs pi. cbn [visit_stmt]. specialize (Hbs pi). unfold visit_bodies in Hbs.
      destruct (smap _ pi bs) as [bs' pi']. cbn [fst flat_map] in *. destruct Hbs as [H1 H2].
      rewrite app_nil_r. apply h_comp; assumption.
    - intros i l pi. cbn. rewrite app_nil_r. apply h_leaf_other.
    - intros n loc pi. cbn. rewrite app_nil_r. apply h_leaf_prof.
  Qed.

  Lemma visit_observer_body : forall b pi, flat_map g (fst (visit_body imports pi b)) = flat_map h b.
  Proof.
    induction b as [|s r IH]; intros pi; [reflexivity|].
    unfold visit_body in *. cbn [smap].
    pose proof (visit_observer_stmt s pi) as Hs.
    destruct (visit_stmt imports pi s) as [b1 pi1]. cbn [fst] in Hs.
    specialize (IH pi1). destruct (smap (visit_stmt imports) pi1 r) as [r' pi2]. cbn [fst] in *.
    rewrite flat_map_app, Hs, IH. reflexivity.
  Qed.
End VisitObserver.

(* ---- erase ---------------------------------------------------------------------------- *)
Lemma rm_profile_add_deco ds : rm_profile (add_deco ds) = rm_profile ds.
Proof.
  unfold add_deco. destruct (has_profile ds); [reflexivity|].
  unfold rm_profile. rewrite filter_app. cbn. rewrite app_nil_r. reflexivity.
Qed.

Lemma erase_bodies_eq (bs bs' : list (Z * list stmt)) :
  map fst bs' = map fst bs ->
  map (fun p => flat_map erase_stmt (snd p)) bs' = map (fun p => flat_map erase_stmt (snd p)) bs ->
  map (fun p => (fst p, flat_map erase_stmt (snd p))) bs'
  = map (fun p => (fst p, flat_map erase_stmt (snd p))) bs.
Proof.
  revert bs. induction bs' as [|p bs' IH]; intros [|q bs] H1 H2; cbn [map] in *; try discriminate; try reflexivity.
  inversion H1 as [[E1 E1']]. inversion H2 as [[E2 E2']].
  rewrite E1, E2, (IH bs E1' E2'). reflexivity.
Qed.

Lemma erase_visit imports b pi : erase (fst (visit_body imports pi b)) = erase b.
Proof.
  unfold erase. apply (visit_observer_body erase_stmt erase_stmt imports); try reflexivity.
  - intros a n ds b0 b' l H. cbn [erase_stmt]. rewrite rm_profile_add_deco, H. reflexivity.
  - intros n i b0 b' l H. cbn [erase_stmt]. rewrite H. reflexivity.
  - intros i bs bs' l H1 H2. cbn [erase_stmt]. rewrite (erase_bodies_eq bs bs' H1 H2). reflexivity.
Qed.

Lemma erase_insert_regs d ks : forall st, erase (fst (fold_left (insert_step d) ks st)) = erase (fst st).
Proof.
  induction ks as [|k ks IH]; intros st; cbn [fold_left]; [reflexivity|].
  rewrite IH. unfold insert_step. destruct (dict_get d k); [|reflexivity].
  cbn [fst]. unfold erase. apply fm_insert_nil. reflexivity.
Qed.

Lemma erase_fix : forall b pl, erase (fix_locs pl b) = erase b.
Proof.
  intros b.
  apply (body_ind'
           (fun s => forall pl, erase_stmt (fix_stmt pl s) = erase_stmt s)
           (fun b => forall pl, erase (fix_locs pl b) = erase b)
           (fun bs => map (fun p => (fst p, flat_map erase_stmt (snd p)))
                          (map (fun p => (fst p, map (fix_stmt (fst p)) (snd p))) bs)
                      = map (fun p => (fst p, flat_map erase_stmt (snd p))) bs)).
  - reflexivity.
  - intros s r Hs Hr pl. unfold erase, fix_locs in *. cbn [map flat_map]. rewrite Hs, Hr. reflexivity.
  - reflexivity.
  - intros l b0 r Hb Hr. cbn [map fst snd]. rewrite Hr. unfold erase, fix_locs in Hb. rewrite Hb. reflexivity.
  - intros a n ds b0 l Hb pl. cbn [fix_stmt erase_stmt]. unfold erase, fix_locs in Hb. rewrite Hb. reflexivity.
  - intros n i b0 l Hb pl. cbn [fix_stmt erase_stmt]. unfold erase, fix_locs in Hb. rewrite Hb. reflexivity.
  - reflexivity.
  - reflexivity.
  - intros i bs l Hbs pl. cbn [fix_stmt erase_stmt]. rewrite Hbs. reflexivity.
  - reflexivity.
  - intros n [l|] pl; reflexivity.
Qed.

Theorem erase_profile_ast_tree full imports d body :
  erase (profile_ast_tree full imports d body) = erase body.
Proof.
  unfold profile_ast_tree. rewrite erase_fix. unfold insert_regs.
  destruct full.
  - rewrite erase_visit. apply (erase_insert_regs d _ (body, [])).
  - apply (erase_insert_regs d _ (body, [])).
Qed.

Lemma transform_ok c body t' :
  transform c body = Ok t' ->
  exists d, select (c_sel c) (pre c body) = Ok d
            /\ t' = profile_ast_tree (c_full c) (c_imports c) d (pre c body).
Proof.
  unfold transform. destruct (select (c_sel c) (pre c body)) as [d|e]; [|discriminate].
  intros H. inversion H. exists d. split; reflexivity.
Qed.

Theorem erase_transform c body t' :
  transform c body = Ok t' -> erase t' = erase (pre c body).
Proof.
  intros H. apply transform_ok in H as [d [_ ->]]. apply erase_profile_ast_tree.
Qed.

(* on a program without `profile` decorators / registration calls erase is the identity *)
Lemma rm_profile_clean ds : has_profile ds = false -> rm_profile ds = ds.
Proof.
  unfold has_profile, rm_profile. induction ds as [|d ds IH]; cbn [existsb filter]; [reflexivity|].
  intros H. apply orb_false_elim in H as [H1 H2]. rewrite H1. cbn [negb]. rewrite IH by exact H2. reflexivity.
Qed.

Lemma erase_clean : forall b, clean b = true -> erase b = b.
Proof.
  intros b.
  apply (body_ind'
           (fun s => clean_stmt s = true -> erase_stmt s = [s])
           (fun b => clean b = true -> erase b = b)
           (fun bs => forallb (fun p => forallb clean_stmt (snd p)) bs = true ->
                      map (fun p => (fst p, flat_map erase_stmt (snd p))) bs = bs)).
  - reflexivity.
  - intros s r Hs Hr H. unfold clean, erase in *. cbn [forallb flat_map] in *.
    apply andb_prop in H as [H1 H2]. rewrite Hs, Hr by assumption. reflexivity.
  - reflexivity.
  - intros l b0 r Hb Hr H. cbn [forallb map fst snd] in *. apply andb_prop in H as [H1 H2].
    unfold clean, erase in Hb. rewrite Hb, Hr by assumption. reflexivity.
  - intros a n ds b0 l Hb H. cbn [clean_stmt erase_stmt] in *. apply andb_prop in H as [H1 H2].
    unfold clean, erase in Hb. rewrite Hb by exact H2. rewrite rm_profile_clean; [reflexivity|].
    destruct (has_profile ds); [discriminate|reflexivity].
  - intros n i b0 l Hb H. cbn [clean_stmt erase_stmt] in *. unfold clean, erase in Hb. rewrite Hb by exact H. reflexivity.
  - reflexivity.
  - reflexivity.
  - intros i bs l Hbs H. cbn [clean_stmt erase_stmt] in *. rewrite Hbs by exact H. reflexivity.
  - reflexivity.
  - intros n loc H. discriminate.
Qed.

Theorem erase_transform_clean c body t' :
  transform c body = Ok t' -> clean (pre c body) = true -> erase t' = pre c body.
Proof.
  intros H Hc. rewrite (erase_transform c body t' H). apply erase_clean. exact Hc.
Qed.

(* the rewrite is defined unless a top-level `from . import x` (module None) makes the
   extractor raise *)
Theorem transform_total c body :
  no_bare_relative (pre c body) = true -> exists t', transform c body = Ok t'.
Proof.
  intros H. unfold transform. rewrite select_eq by exact H. eexists. reflexivity.
Qed.

Theorem transform_bare_relative c body :
  no_bare_relative (pre c body) = false -> transform c body = Err TypeError.
Proof.
  intros H. unfold transform, select, get_imports. rewrite get_imports_from_bare by exact H. reflexivity.
Qed.

(* ---- function headers ---------------------------------------------------------------- *)
Lemma funcs_bodies_eq (g h : stmt -> list fhead) (bs bs' : list (Z * list stmt)) :
  map (fun p => flat_map g (snd p)) bs' = map (fun p => flat_map h (snd p)) bs ->
  flat_map (fun p => flat_map g (snd p)) bs' = flat_map (fun p => flat_map h (snd p)) bs.
Proof.
  revert bs. induction bs' as [|p bs' IH]; intros [|q bs] H; cbn [map flat_map] in *; try discriminate; try reflexivity.
  inversion H. rewrite (IH bs) by assumption. congruence.
Qed.

Definition deco_funcs_stmt (s : stmt) : list fhead := map deco_once (funcs_stmt s).

Lemma map_flat_map {A B C} (f : B -> C) (g : A -> list B) l :
  map f (flat_map g l) = flat_map (fun a => map f (g a)) l.
Proof. induction l as [|a l IH]; cbn [flat_map map]; [reflexivity|]. rewrite map_app, IH. reflexivity. Qed.

Lemma funcs_visit imports b pi :
  funcs (fst (visit_body imports pi b)) = map deco_once (funcs b).
Proof.
  unfold funcs. rewrite map_flat_map.
  apply (visit_observer_body funcs_stmt deco_funcs_stmt imports); try reflexivity.
  - intros a n ds b0 b' l H. unfold deco_funcs_stmt. cbn [funcs_stmt map]. unfold deco_once at 1. cbn.
    f_equal. rewrite H. rewrite map_flat_map. reflexivity.
  - intros n i b0 b' l H. unfold deco_funcs_stmt. cbn [funcs_stmt]. rewrite H, map_flat_map. reflexivity.
  - intros i bs bs' l H1 H2. unfold deco_funcs_stmt. cbn [funcs_stmt].
    rewrite (funcs_bodies_eq funcs_stmt deco_funcs_stmt bs bs' H2).
    rewrite map_flat_map. apply flat_map_ext. intros p. unfold deco_funcs_stmt. rewrite map_flat_map. reflexivity.
Qed.

Lemma funcs_insert_regs d ks : forall st, funcs (fst (fold_left (insert_step d) ks st)) = funcs (fst st).
Proof.
  induction ks as [|k ks IH]; intros st; cbn [fold_left]; [reflexivity|].
  rewrite IH. unfold insert_step. destruct (dict_get d k); [|reflexivity].
  cbn [fst]. unfold funcs. apply fm_insert_nil. reflexivity.
Qed.

Lemma funcs_fix : forall b pl, funcs (fix_locs pl b) = funcs b.
Proof.
  intros b.
  apply (body_ind'
           (fun s => forall pl, funcs_stmt (fix_stmt pl s) = funcs_stmt s)
           (fun b => forall pl, funcs (fix_locs pl b) = funcs b)
           (fun bs => flat_map (fun p => flat_map funcs_stmt (snd p))
                               (map (fun p => (fst p, map (fix_stmt (fst p)) (snd p))) bs)
                      = flat_map (fun p => flat_map funcs_stmt (snd p)) bs)).
  - reflexivity.
  - intros s r Hs Hr pl. unfold funcs, fix_locs in *. cbn [map flat_map]. rewrite Hs, Hr. reflexivity.
  - reflexivity.
  - intros l b0 r Hb Hr. cbn [map flat_map fst snd]. rewrite Hr. unfold funcs, fix_locs in Hb. rewrite Hb. reflexivity.
  - intros a n ds b0 l Hb pl. cbn [fix_stmt funcs_stmt]. unfold funcs, fix_locs in Hb. rewrite Hb. reflexivity.
  - intros n i b0 l Hb pl. cbn [fix_stmt funcs_stmt]. unfold funcs, fix_locs in Hb. rewrite Hb. reflexivity.
  - reflexivity.
  - reflexivity.
  - intros i bs l Hbs pl. cbn [fix_stmt funcs_stmt]. rewrite Hbs. reflexivity.
  - reflexivity.
  - intros n [l|] pl; reflexivity.
Qed.

Theorem funcs_profile_ast_tree full imports d body :
  funcs (profile_ast_tree full imports d body)
  = if full then map deco_once (funcs body) else funcs body.
Proof.
  unfold profile_ast_tree. rewrite funcs_fix. unfold insert_regs. destruct full.
  - rewrite funcs_visit. f_equal. apply (funcs_insert_regs d _ (body, [])).
  - apply (funcs_insert_regs d _ (body, [])).
Qed.

Theorem funcs_transform c body t' :
  transform c body = Ok t' ->
  funcs t' = if c_full c then map deco_once (funcs (pre c body)) else funcs (pre c body).
Proof.
  intros H. apply transform_ok in H as [d [_ ->]]. apply funcs_profile_ast_tree.
Qed.

(* every function of a clean program has no `profile` decorator ... *)
Lemma funcs_clean : forall b, clean b = true ->
  forall f, In f (funcs b) -> has_profile (fh_decos f) = false.
Proof.
  intros b.
  apply (body_ind'
           (fun s => clean_stmt s = true -> forall f, In f (funcs_stmt s) -> has_profile (fh_decos f) = false)
           (fun b => clean b = true -> forall f, In f (funcs b) -> has_profile (fh_decos f) = false)
           (fun bs => forallb (fun p => forallb clean_stmt (snd p)) bs = true ->
                      forall f, In f (flat_map (fun p => flat_map funcs_stmt (snd p)) bs) ->
                                has_profile (fh_decos f) = false)).
  - intros _ f [].
  - intros s r Hs Hr H f Hf. unfold clean, funcs in *. cbn [forallb flat_map] in *.
    apply andb_prop in H as [H1 H2]. apply in_app_iff in Hf as [Hf|Hf]; [apply Hs|apply Hr]; assumption.
  - intros _ f [].
  - intros l b0 r Hb Hr H f Hf. cbn [forallb flat_map snd] in *. apply andb_prop in H as [H1 H2].
    apply in_app_iff in Hf as [Hf|Hf]; [apply Hb|apply Hr]; assumption.
  - intros a n ds b0 l Hb H f Hf. cbn [clean_stmt funcs_stmt In] in *. apply andb_prop in H as [H1 H2].
    destruct Hf as [<-|Hf]; [|apply Hb; assumption].
    cbn [fh_decos]. destruct (has_profile ds); [discriminate H1|reflexivity].
  - intros n i b0 l Hb H f Hf. apply Hb; assumption.
  - intros ns l _ f [].
  - intros m ns lv l _ f [].
  - intros i bs l Hbs H f Hf. apply Hbs; assumption.
  - intros i l _ f [].
  - intros n loc H. discriminate.
Qed.

(* ... so after the rewrite each has exactly one, in the innermost position *)
Lemma once_innermost_deco_once f :
  has_profile (fh_decos f) = false -> once_innermost (deco_once f) = true.
Proof.
  intros H. unfold once_innermost, deco_once, add_deco. cbn [fh_decos]. rewrite H.
  unfold count_profile, last_is_profile. rewrite filter_app, rev_app_distr. cbn.
  assert (E : filter is_profile (fh_decos f) = []).
  { unfold has_profile in H. induction (fh_decos f) as [|d ds IH]; [reflexivity|].
    cbn [existsb filter] in *. apply orb_false_elim in H as [H1 H2]. rewrite H1. apply IH. exact H2. }
  rewrite E. reflexivity.
Qed.

Lemma has_profile_deco_once f : has_profile (fh_decos (deco_once f)) = true.
Proof.
  unfold deco_once, add_deco. cbn [fh_decos]. destruct (has_profile (fh_decos f)) eqn:E; [exact E|].
  unfold has_profile. rewrite existsb_app. cbn. apply orb_true_r.
Qed.

Theorem whole_script_once_innermost c body t' :
  c_full c = true -> clean (pre c body) = true -> transform c body = Ok t' ->
  forall f, In f (funcs t') -> once_innermost f = true.
Proof.
  intros Hf Hc H f Hin. rewrite (funcs_transform c body t' H), Hf in Hin.
  apply in_map_iff in Hin as [f0 [<- Hin]]. apply once_innermost_deco_once.
  apply (funcs_clean (pre c body) Hc f0 Hin).
Qed.

Theorem whole_script_all_profiled c body t' :
  c_full c = true -> transform c body = Ok t' ->
  forall f, In f (funcs t') -> has_profile (fh_decos f) = true.
Proof.
  intros Hf H f Hin. rewrite (funcs_transform c body t' H), Hf in Hin.
  apply in_map_iff in Hin as [f0 [<- _]]. apply has_profile_deco_once.
Qed.

(* ---- line numbers ---------------------------------------------------------------------- *)
Lemma lines_bodies_eq (bs : list (Z * list stmt)) (F : Z * list stmt -> Z * list stmt) :
  (forall p, In p bs -> fst (F p) = fst p /\ flat_map lines_stmt (snd (F p)) = flat_map lines_stmt (snd p)) ->
  flat_map (fun p => fst p :: flat_map lines_stmt (snd p)) (map F bs)
  = flat_map (fun p => fst p :: flat_map lines_stmt (snd p)) bs.
Proof.
  induction bs as [|p bs IH]; intros H; cbn [map flat_map]; [reflexivity|].
  destruct (H p (or_introl eq_refl)) as [H1 H2]. rewrite H1, H2, IH; [reflexivity|].
  intros q Hq. apply H. right. exact Hq.
Qed.

Lemma lines_erase : forall b, lines (erase b) = lines b.
Proof.
  intros b.
  apply (body_ind'
           (fun s => lines (erase_stmt s) = lines_stmt s)
           (fun b => lines (erase b) = lines b)
           (fun bs => flat_map (fun p => fst p :: flat_map lines_stmt (snd p))
                               (map (fun p => (fst p, flat_map erase_stmt (snd p))) bs)
                      = flat_map (fun p => fst p :: flat_map lines_stmt (snd p)) bs)).
  - reflexivity.
  - intros s r Hs Hr. unfold lines, erase in *. cbn [flat_map]. rewrite flat_map_app, Hs, Hr. reflexivity.
  - reflexivity.
  - intros l b0 r Hb Hr. cbn [map flat_map fst snd]. rewrite Hr. unfold lines, erase in Hb. rewrite Hb. reflexivity.
  - intros a n ds b0 l Hb. unfold lines, erase in *. cbn [erase_stmt flat_map lines_stmt]. rewrite Hb, app_nil_r. reflexivity.
  - intros n i b0 l Hb. unfold lines, erase in *. cbn [erase_stmt flat_map lines_stmt]. rewrite Hb, app_nil_r. reflexivity.
  - reflexivity.
  - reflexivity.
  - intros i bs l Hbs. unfold lines. cbn [erase_stmt flat_map lines_stmt]. rewrite Hbs, app_nil_r. reflexivity.
  - reflexivity.
  - reflexivity.
Qed.

Lemma lines_abs m : forall b, lines (absolutize m b) = lines b.
Proof.
  intros b.
  apply (body_ind'
           (fun s => lines_stmt (abs_stmt m s) = lines_stmt s)
           (fun b => lines (absolutize m b) = lines b)
           (fun bs => flat_map (fun p => fst p :: flat_map lines_stmt (snd p))
                               (map (fun p => (fst p, map (abs_stmt m) (snd p))) bs)
                      = flat_map (fun p => fst p :: flat_map lines_stmt (snd p)) bs)).
  - reflexivity.
  - intros s r Hs Hr. unfold lines, absolutize in *. cbn [map flat_map]. rewrite Hs, Hr. reflexivity.
  - reflexivity.
  - intros l b0 r Hb Hr. cbn [map flat_map fst snd]. rewrite Hr. unfold lines, absolutize in Hb. rewrite Hb. reflexivity.
  - intros a n ds b0 l Hb. cbn [abs_stmt lines_stmt]. unfold lines, absolutize in Hb. rewrite Hb. reflexivity.
  - intros n i b0 l Hb. cbn [abs_stmt lines_stmt]. unfold lines, absolutize in Hb. rewrite Hb. reflexivity.
  - reflexivity.
  - intros md ns lv l. cbn [abs_stmt]. destruct (Z.eqb lv 0); [reflexivity|].
    destruct (get_module_from_importfrom lv md m); reflexivity.
  - intros i bs l Hbs. cbn [abs_stmt lines_stmt]. rewrite Hbs. reflexivity.
  - reflexivity.
  - reflexivity.
Qed.

Theorem lines_transform c body t' : transform c body = Ok t' -> lines t' = lines body.
Proof.
  intros H. rewrite <- (lines_erase t'), (erase_transform c body t' H), lines_erase.
  unfold pre. destruct (c_module c); [apply lines_abs|reflexivity].
Qed.

(* ---- names handed to registration calls ------------------------------------------------ *)
Lemma insert_desc_in k l x : In x (insert_desc k l) <-> x = k \/ In x l.
Proof.
  induction l as [|y l IH]; cbn [insert_desc In]; [intuition|].
  destruct (y <? k); cbn [In]; [intuition|]. rewrite IH. intuition.
Qed.

Lemma sort_desc_in l x : In x (sort_desc l) <-> In x l.
Proof.
  induction l as [|y l IH]; cbn [sort_desc fold_right In]; [tauto|].
  change (fold_right insert_desc [] l) with (sort_desc l). rewrite insert_desc_in, IH. intuition.
Qed.

Lemma regs_insert_in i x l y : In y (regs (insert_at i x l)) <-> In y (regs_stmt x) \/ In y (regs l).
Proof. apply fm_insert_in. Qed.

Lemma regs_insert_regs d ks : forall st y,
  In y (regs (fst (fold_left (insert_step d) ks st)))
  <-> (exists k, In k ks /\ dict_get d k = Some y) \/ In y (regs (fst st)).
Proof.
  induction ks as [|k ks IH]; intros st y; cbn [fold_left].
  - split; [auto|]. intros [[k [[] _]]|H]; exact H.
  - rewrite IH. unfold insert_step. destruct (dict_get d k) as [n|] eqn:E; cbn [fst].
    + rewrite regs_insert_in. cbn [regs_stmt In]. split.
      * intros [[k' [Hk Hg]]|[[<-|[]]|H]].
        -- left. exists k'. split; [right; exact Hk|exact Hg].
        -- left. exists k. split; [left; reflexivity|exact E].
        -- right. exact H.
      * intros [[k' [[<-|Hk] Hg]]|H].
        -- right. left. left. congruence.
        -- left. exists k'. split; assumption.
        -- right. right. exact H.
    + split.
      * intros [[k' [Hk Hg]]|H]; [left; exists k'; split; [right; exact Hk|exact Hg]|right; exact H].
      * intros [[k' [[<-|Hk] Hg]]|H]; [congruence|left; exists k'; split; assumption|right; exact H].
Qed.

Lemma dict_get_in d k y : dict_get d k = Some y -> In (k, y) d.
Proof.
  induction d as [|[k' v] r IH]; cbn [dict_get In]; [discriminate|].
  destruct (Z.eqb_spec k' k) as [->|Hne]; [intros H; inversion H; left; reflexivity|].
  intros H. right. apply IH. exact H.
Qed.

Lemma dict_in_get d k y : NoDup (map fst d) -> In (k, y) d -> dict_get d k = Some y.
Proof.
  induction d as [|[k' v] r IH]; cbn [dict_get In map fst]; [tauto|].
  intros Hnd [H|H].
  - inversion H; subst. rewrite Z.eqb_refl. reflexivity.
  - inversion Hnd as [|? ? Hk Hr]; subst. destruct (Z.eqb_spec k' k) as [->|Hne].
    + exfalso. apply Hk. apply in_map_iff. exists (k, y). split; [reflexivity|exact H].
    + apply IH; assumption.
Qed.

Lemma regs_fix : forall b pl, regs (fix_locs pl b) = regs b.
Proof.
  intros b.
  apply (body_ind'
           (fun s => forall pl, regs_stmt (fix_stmt pl s) = regs_stmt s)
           (fun b => forall pl, regs (fix_locs pl b) = regs b)
           (fun bs => flat_map (fun p => flat_map regs_stmt (snd p))
                               (map (fun p => (fst p, map (fix_stmt (fst p)) (snd p))) bs)
                      = flat_map (fun p => flat_map regs_stmt (snd p)) bs)).
  - reflexivity.
  - intros s r Hs Hr pl. unfold regs, fix_locs in *. cbn [map flat_map]. rewrite Hs, Hr. reflexivity.
  - reflexivity.
  - intros l b0 r Hb Hr. cbn [map flat_map fst snd]. rewrite Hr. unfold regs, fix_locs in Hb. rewrite Hb. reflexivity.
  - intros a n ds b0 l Hb pl. cbn [fix_stmt regs_stmt]. unfold regs, fix_locs in Hb. rewrite Hb. reflexivity.
  - intros n i b0 l Hb pl. cbn [fix_stmt regs_stmt]. unfold regs, fix_locs in Hb. rewrite Hb. reflexivity.
  - reflexivity.
  - reflexivity.
  - intros i bs l Hbs pl. cbn [fix_stmt regs_stmt]. rewrite Hbs. reflexivity.
  - reflexivity.
  - intros n [l|] pl; reflexivity.
Qed.

(* without --prof-imports the transformer adds no registration call *)
Lemma regs_visit_noimports b pi : regs (fst (visit_body false pi b)) = regs b.
Proof.
  unfold regs.
  apply (body_ind'
           (fun s => forall pi, flat_map regs_stmt (fst (visit_stmt false pi s)) = regs_stmt s)
           (fun b => forall pi, flat_map regs_stmt (fst (visit_body false pi b)) = flat_map regs_stmt b)
           (fun bs => forall pi,
                flat_map (fun p => flat_map regs_stmt (snd p)) (fst (visit_bodies false pi bs))
                = flat_map (fun p => flat_map regs_stmt (snd p)) bs)).
  - reflexivity.
  - intros s r Hs Hr pi0. unfold visit_body in *. cbn [smap].
    specialize (Hs pi0). destruct (visit_stmt false pi0 s) as [b1 pi1]. cbn [fst] in Hs.
    specialize (Hr pi1). destruct (smap (visit_stmt false) pi1 r) as [r' pi2]. cbn [fst] in *.
    cbn [flat_map]. rewrite flat_map_app, Hs, Hr. reflexivity.
  - reflexivity.
  - intros l b0 r Hb Hr pi0. unfold visit_bodies in *. cbn [smap snd fst].
    specialize (Hb pi0). unfold visit_body in Hb.
    destruct (smap (visit_stmt false) pi0 b0) as [b' pi1]. cbn [fst] in Hb.
    specialize (Hr pi1). destruct (smap _ pi1 r) as [r' pi2]. cbn [fst] in *.
    cbn [app flat_map snd]. rewrite Hr, Hb. reflexivity.
  - intros a n ds b0 l Hb pi0. cbn [visit_stmt]. specialize (Hb pi0). unfold visit_body in Hb.
    destruct (smap (visit_stmt false) pi0 b0) as [b' pi']. cbn [fst flat_map regs_stmt] in *.
    rewrite app_nil_r. exact Hb.
  - intros n i b0 l Hb pi0. cbn [visit_stmt]. specialize (Hb pi0). unfold visit_body in Hb.
    destruct (smap (visit_stmt false) pi0 b0) as [b' pi']. cbn [fst flat_map regs_stmt] in *.
    rewrite app_nil_r. exact Hb.
  - reflexivity.
  - reflexivity.
  - intros i bs l Hbs pi0. cbn [visit_stmt]. specialize (Hbs pi0). unfold visit_bodies in Hbs.
    destruct (smap _ pi0 bs) as [bs' pi']. cbn [fst flat_map regs_stmt] in *.
    rewrite app_nil_r. exact Hbs.
  - reflexivity.
  - reflexivity.
Qed.

(* exactly the selected names are handed to registration calls (unless --prof-imports
   together with the whole script asks for all imports) *)
Theorem regs_transform c body t' d :
  transform c body = Ok t' -> select (c_sel c) (pre c body) = Ok d ->
  c_full c = false \/ c_imports c = false ->
  forall y, In y (regs t') <-> In y (map snd d) \/ In y (regs (pre c body)).
Proof.
  intros H Hd Hcfg y. apply transform_ok in H as [d' [Hd' ->]].
  rewrite Hd in Hd'. inversion Hd'; subst d'. clear Hd'.
  assert (Hnd : NoDup (map fst d)).
  { unfold select in Hd. destruct (get_imports (pre c body)); [|discriminate].
    inversion Hd. apply find_modnames_keys_nodup. }
  assert (Hins : In y (regs (fst (insert_regs d (pre c body))))
                 <-> In y (map snd d) \/ In y (regs (pre c body))).
  { unfold insert_regs. rewrite regs_insert_regs. cbn [fst]. split.
    - intros [[k [Hk Hg]]|Hr]; [left|right; exact Hr].
      apply dict_get_in in Hg. apply in_map_iff. exists (k, y). split; [reflexivity|exact Hg].
    - intros [Hm|Hr]; [left|right; exact Hr].
      apply in_map_iff in Hm as [[k v] [E Hin]]. cbn [snd] in E. subst v. exists k. split.
      + apply sort_desc_in. apply in_map_iff. exists (k, y). split; [reflexivity|exact Hin].
      + apply dict_in_get; assumption. }
  unfold profile_ast_tree. rewrite regs_fix.
  destruct (c_full c) eqn:Ef; [|exact Hins].
  destruct Hcfg as [Hf|Hi]; [discriminate|]. rewrite Hi, regs_visit_noimports. exact Hins.
Qed.
