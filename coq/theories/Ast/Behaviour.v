(* C08_behaviour: the rewritten program behaves like the original, for an ARBITRARY
   big-step semantics [exec] that is compositional and for which
     (i)  appending a decorator that denotes the identity does not change a definition
          (property C03 for `profile`), and
     (ii) a registration call of a well-formed name changes nothing program-visible
          (C03_registration_inert).
   These are Section hypotheses (never axioms): the closed theorem has them as premises. *)
From LP Require Import Prelude.Py Prelude.PyLemmas Gen.RelImport
     Ast.AstLite Ast.AuxStr Ast.Select Ast.Transform Ast.TransformFacts.

Definition is_leaf (s : stmt) : bool :=
  match s with
  | Import _ _ | ImportFrom _ _ _ _ | Other _ _ | ProfCall _ _ => true
  | _ => false
  end.

Section Behaviour.
  Variables env outcome : Type.
  Variable exec : list stmt -> env -> outcome * env.
  Variable is_normal : outcome -> bool.
  Variable normal : outcome.
  (* equality of the program-visible part of two interpreter states *)
  Variable eqv : env -> env -> Prop.
  Hypothesis eqv_refl : forall e, eqv e e.
  Hypothesis eqv_sym : forall a b, eqv a b -> eqv b a.
  Hypothesis eqv_trans : forall a b c, eqv a b -> eqv b c -> eqv a c.

  (* two statement lists are interchangeable *)
  Definition beq (b b' : list stmt) : Prop :=
    forall e e', eqv e e' ->
      fst (exec b e) = fst (exec b' e') /\ eqv (snd (exec b e)) (snd (exec b' e')).

  (* (iii) exec is compositional over statement lists and nested bodies *)
  Hypothesis exec_nil : forall e, exec [] e = (normal, e).
  Hypothesis exec_app : forall a b e,
    exec (a ++ b) e = if is_normal (fst (exec a e)) then exec b (snd (exec a e)) else exec a e.
  Hypothesis exec_leaf : forall s, is_leaf s = true -> beq [s] [s].
  Hypothesis cong_func : forall a n ds b b' l,
    beq b b' -> beq [FuncDef a n ds b l] [FuncDef a n ds b' l].
  Hypothesis cong_class : forall n i b b' l,
    beq b b' -> beq [ClassDef n i b l] [ClassDef n i b' l].
  Hypothesis cong_comp : forall i bs bs' l,
    Forall2 (fun p p' => fst p = fst p' /\ beq (snd p) (snd p')) bs bs' ->
    beq [Compound i bs l] [Compound i bs' l].
  (* (i) the appended decorator denotes the identity *)
  Hypothesis deco_identity : forall a n ds b l,
    beq [FuncDef a n (ds ++ [DName profile_name]) b l] [FuncDef a n ds b l].
  (* (ii) registering a well-formed, bound name is invisible to the program *)
  Variable good_name : string -> bool.
  Hypothesis reg_inert : forall n loc, good_name n = true -> beq [ProfCall n loc] [].

  Lemma beq_sym b b' : beq b b' -> beq b' b.
  Proof.
    intros H e e' He. destruct (H e' e (eqv_sym _ _ He)) as [H1 H2]. split; [symmetry; exact H1|].
    apply eqv_sym. exact H2.
  Qed.

  Lemma beq_trans a b c : beq a b -> beq b c -> beq a c.
  Proof.
    intros H1 H2 e e' He. destruct (H1 e e' He) as [A1 A2]. destruct (H2 e' e' (eqv_refl e')) as [B1 B2].
    split; [congruence|]. eapply eqv_trans; eassumption.
  Qed.

  Lemma beq_nil : beq [] [].
  Proof. intros e e' He. rewrite !exec_nil. split; [reflexivity|exact He]. Qed.

  Lemma beq_app a a' b b' : beq a a' -> beq b b' -> beq (a ++ b) (a' ++ b').
  Proof.
    intros Ha Hb e e' He. rewrite !exec_app. destruct (Ha e e' He) as [A1 A2]. rewrite <- A1.
    destruct (is_normal (fst (exec a e))); [apply Hb; exact A2|split; assumption].
  Qed.

  Lemma beq_cons s s' b b' : beq [s] s' -> beq b b' -> beq (s :: b) (s' ++ b').
  Proof. intros Hs Hb. change (s :: b) with ([s] ++ b). apply beq_app; assumption. Qed.

  Definition bodies_rel (bs bs' : list (Z * list stmt)) : Prop :=
    Forall2 (fun p p' => fst p = fst p' /\ beq (snd p) (snd p')) bs bs'.

  Lemma beq_refl : forall b, beq b b.
  Proof.
    intros b.
    apply (body_ind' (fun s => beq [s] [s]) (fun b => beq b b) (fun bs => bodies_rel bs bs)).
    - exact beq_nil.
    - intros s r Hs Hr. apply (beq_cons s [s] r r Hs Hr).
    - constructor.
    - intros l b0 r Hb Hr. constructor; [split; [reflexivity|exact Hb]|exact Hr].
    - intros a n ds b0 l Hb. apply cong_func. exact Hb.
    - intros n i b0 l Hb. apply cong_class. exact Hb.
    - intros ns l. apply exec_leaf. reflexivity.
    - intros m ns lv l. apply exec_leaf. reflexivity.
    - intros i bs l Hbs. apply cong_comp. exact Hbs.
    - intros i l. apply exec_leaf. reflexivity.
    - intros n loc. apply exec_leaf. reflexivity.
  Qed.

  Definition good (l : list string) : Prop := forall y, In y l -> good_name y = true.

  Lemma good_app a b : good (a ++ b) <-> good a /\ good b.
  Proof.
    unfold good. split.
    - intros H. split; intros y Hy; apply H; apply in_app_iff; [left|right]; exact Hy.
    - intros [Ha Hb] y Hy. apply in_app_iff in Hy as [Hy|Hy]; [apply Ha|apply Hb]; exact Hy.
  Qed.

  (* ---- registration statements are invisible -------------------------------------------- *)
  Lemma beq_all_prof extra :
    forallb is_profcall extra = true -> good (regs extra) -> beq extra [].
  Proof.
    induction extra as [|s r IH]; intros Hp Hg; [exact beq_nil|].
    cbn [forallb] in Hp. apply andb_prop in Hp as [Hs Hr]. destruct s; try discriminate Hs.
    unfold regs in Hg. cbn [flat_map regs_stmt] in Hg. apply good_app in Hg as [Hg1 Hg2].
    apply (beq_cons (ProfCall name loc) [] r []).
    - apply reg_inert. apply Hg1. left. reflexivity.
    - apply IH; assumption.
  Qed.

  Lemma beq_calls loc names : good names -> beq (calls loc names) [].
  Proof.
    intros Hg. apply beq_all_prof; [apply calls_all_prof|rewrite regs_calls; exact Hg].
  Qed.

  (* stage 1 in interleaved form: every statement followed by its registrations *)
  Lemma beq_expand f : forall b i, good (regs (expand f i b)) -> beq (expand f i b) b.
  Proof.
    induction b as [|s r IH]; intros i Hg; [exact beq_nil|].
    cbn [expand] in *. change (map (fun n => ProfCall n (stmt_line s)) (f i)) with (calls (stmt_line s) (f i)) in *.
    rewrite regs_cons, regs_app, regs_calls in Hg. apply good_app in Hg as [_ Hg]. apply good_app in Hg as [G1 G2].
    change (s :: r) with ([s] ++ ([] ++ r)).
    change (s :: calls (stmt_line s) (f i) ++ expand f (i + 1) r)
      with ([s] ++ (calls (stmt_line s) (f i) ++ expand f (i + 1) r)).
    apply beq_app; [apply beq_refl|]. apply beq_app; [apply beq_calls; exact G1|apply IH; exact G2].
  Qed.

  (* ---- fix_missing_locations only touches locations of registration statements ------------ *)
  Lemma beq_fix : forall b, good (regs b) -> forall pl, beq (fix_locs pl b) b.
  Proof.
    intros b.
    apply (body_ind'
             (fun s => good (regs_stmt s) -> forall pl, beq [fix_stmt pl s] [s])
             (fun b => good (regs b) -> forall pl, beq (fix_locs pl b) b)
             (fun bs => good (flat_map (fun p => flat_map regs_stmt (snd p)) bs) ->
                        bodies_rel (map (fun p => (fst p, map (fix_stmt (fst p)) (snd p))) bs) bs)).
    - intros _ pl. exact beq_nil.
    - intros s r Hs Hr Hg pl. unfold regs in Hg. cbn [flat_map] in Hg. apply good_app in Hg as [G1 G2].
      unfold fix_locs. cbn [map]. apply (beq_cons _ [s] _ r); [apply Hs; exact G1|apply Hr; exact G2].
    - intros _. constructor.
    - intros l b0 r Hb Hr Hg. cbn [flat_map snd] in Hg. apply good_app in Hg as [G1 G2].
      cbn [map fst snd]. constructor; [split; [reflexivity|apply Hb; exact G1]|apply Hr; exact G2].
    - intros a n ds b0 l Hb Hg pl. cbn [fix_stmt]. apply cong_func. apply Hb. exact Hg.
    - intros n i b0 l Hb Hg pl. cbn [fix_stmt]. apply cong_class. apply Hb. exact Hg.
    - intros ns l _ pl. apply beq_refl.
    - intros m ns lv l _ pl. apply beq_refl.
    - intros i bs l Hbs Hg pl. cbn [fix_stmt]. apply cong_comp. apply Hbs. exact Hg.
    - intros i l _ pl. apply beq_refl.
    - intros n loc Hg pl. assert (Hn : good_name n = true) by (apply Hg; left; reflexivity).
      destruct loc as [l|]; cbn [fix_stmt]; [apply beq_refl|].
      eapply beq_trans; [apply reg_inert; exact Hn|apply beq_sym; apply reg_inert; exact Hn].
  Qed.

  (* ---- the transformer: decorators and (with --prof-imports) registrations ---------------- *)
  Lemma beq_add_deco a n ds b b' l :
    beq b' b -> beq [FuncDef a n (add_deco ds) b' l] [FuncDef a n ds b l].
  Proof.
    intros Hb. unfold add_deco. destruct (has_profile ds); [apply cong_func; exact Hb|].
    eapply beq_trans; [apply deco_identity|apply cong_func; exact Hb].
  Qed.

  Lemma visit_import_regs loc pi ns s :
    good (regs (s :: fst (visit_import_names loc pi ns))) -> is_leaf s = true ->
    beq (s :: fst (visit_import_names loc pi ns)) [s] /\ good (regs_stmt s).
  Proof.
    intros Hg Hl. rewrite regs_cons in Hg. apply good_app in Hg as [G1 G2]. split; [|exact G1].
    apply (beq_cons s [s] _ []); [apply exec_leaf; exact Hl|].
    apply beq_all_prof; [apply visit_import_names_all_prof|exact G2].
  Qed.

  Lemma beq_visit imports : forall b pi,
    good (regs (fst (visit_body imports pi b))) ->
    beq (fst (visit_body imports pi b)) b /\ good (regs b).
  Proof.
    intros b.
    apply (body_ind'
             (fun s => forall pi, good (regs (fst (visit_stmt imports pi s))) ->
                                  beq (fst (visit_stmt imports pi s)) [s] /\ good (regs_stmt s))
             (fun b => forall pi, good (regs (fst (visit_body imports pi b))) ->
                                  beq (fst (visit_body imports pi b)) b /\ good (regs b))
             (fun bs => forall pi,
                  good (flat_map (fun p => flat_map regs_stmt (snd p)) (fst (visit_bodies imports pi bs))) ->
                  bodies_rel (fst (visit_bodies imports pi bs)) bs
                  /\ good (flat_map (fun p => flat_map regs_stmt (snd p)) bs))).
    - intros pi _. split; [exact beq_nil|intros y []].
    - intros s r Hs Hr pi. unfold visit_body in *. cbn [smap].
      specialize (Hs pi). destruct (visit_stmt imports pi s) as [b1 pi1]. cbn [fst] in Hs.
      specialize (Hr pi1). destruct (smap (visit_stmt imports) pi1 r) as [r' pi2]. cbn [fst] in *.
      intros Hg. unfold regs in Hg. rewrite flat_map_app in Hg. apply good_app in Hg as [G1 G2].
      destruct (Hs G1) as [B1 K1]. destruct (Hr G2) as [B2 K2]. split.
      + change (s :: r) with ([s] ++ r). apply beq_app; assumption.
      + unfold regs. cbn [flat_map]. apply good_app. split; assumption.
    - intros pi _. split; [constructor|intros y []].
    - intros l b0 r Hb Hr pi. unfold visit_bodies in *. cbn [smap snd fst].
      specialize (Hb pi). unfold visit_body in Hb.
      destruct (smap (visit_stmt imports) pi b0) as [b' pi1]. cbn [fst] in Hb.
      specialize (Hr pi1). destruct (smap _ pi1 r) as [r' pi2]. cbn [fst] in *.
      cbn [app flat_map snd]. intros Hg. apply good_app in Hg as [G1 G2].
      destruct (Hb G1) as [B1 K1]. destruct (Hr G2) as [B2 K2]. split.
      + constructor; [split; [reflexivity|exact B1]|exact B2].
      + apply good_app. split; assumption.
    - intros a n ds b0 l Hb pi. cbn [visit_stmt]. specialize (Hb pi). unfold visit_body in Hb.
      destruct (smap (visit_stmt imports) pi b0) as [b' pi']. cbn [fst] in *.
      unfold regs. cbn [flat_map regs_stmt]. rewrite app_nil_r. intros Hg.
      destruct (Hb Hg) as [B K]. split; [apply beq_add_deco; exact B|exact K].
    - intros n i b0 l Hb pi. cbn [visit_stmt]. specialize (Hb pi). unfold visit_body in Hb.
      destruct (smap (visit_stmt imports) pi b0) as [b' pi']. cbn [fst] in *.
      unfold regs. cbn [flat_map regs_stmt]. rewrite app_nil_r. intros Hg.
      destruct (Hb Hg) as [B K]. split; [apply cong_class; exact B|exact K].
    - intros ns l pi. cbn [visit_stmt]. destruct imports.
      + pose proof (visit_import_regs (Some l) pi ns (Import ns l)) as H.
        destruct (visit_import_names (Some l) pi ns) as [extra pi']. cbn [fst] in *. intros Hg. apply H; [exact Hg|reflexivity].
      + cbn [fst]. intros _. split; [apply beq_refl|intros y []].
    - intros m ns lv l pi. cbn [visit_stmt]. destruct (imports && negb (from_future m)).
      + pose proof (visit_import_regs (Some l) pi ns (ImportFrom m ns lv l)) as H.
        destruct (visit_import_names (Some l) pi ns) as [extra pi']. cbn [fst] in *. intros Hg. apply H; [exact Hg|reflexivity].
      + cbn [fst]. intros _. split; [apply beq_refl|intros y []].
    - intros i bs l Hbs pi. cbn [visit_stmt]. specialize (Hbs pi). unfold visit_bodies in Hbs.
      destruct (smap _ pi bs) as [bs' pi']. cbn [fst] in *.
      unfold regs. cbn [flat_map regs_stmt]. rewrite app_nil_r. intros Hg.
      destruct (Hbs Hg) as [B K]. split; [apply cong_comp; exact B|exact K].
    - intros i l pi _. cbn. split; [apply beq_refl|intros y []].
    - intros n loc pi. cbn [visit_stmt fst]. unfold regs. cbn [flat_map]. rewrite app_nil_r.
      intros Hg. split; [apply beq_refl|exact Hg].
  Qed.

  (* ---- the theorem ------------------------------------------------------------------------ *)
  Theorem behaviour c body :
    (forall y, In y (regs (transform c body)) -> good_name y = true) ->
    forall e, fst (exec (transform c body) e) = fst (exec (pre c body) e)
              /\ eqv (snd (exec (transform c body) e)) (snd (exec (pre c body) e)).
  Proof.
    intros Hg e. rewrite transform_stages in *. rewrite regs_fix in Hg.
    assert (B : beq (fix_locs 1 (stage2 c body)) (pre c body)).
    { eapply beq_trans; [apply beq_fix; exact Hg|]. unfold stage2 in *. destruct (c_full c).
      - destruct (beq_visit (c_imports c) _ _ Hg) as [B K].
        eapply beq_trans; [exact B|]. unfold stage1 in *. apply beq_expand. exact K.
      - unfold stage1 in *. apply beq_expand. exact Hg. }
    apply (B e e (eqv_refl e)).
  Qed.
End Behaviour.

(* ---- the hypotheses are satisfiable: a trace semantics --------------------------------- *)
(* executing a list appends the line of every original statement (definitions are entered);
   decorators and registration calls leave no trace *)
Definition toy_exec (b : list stmt) (e : list Z) : unit * list Z := (tt, e ++ lines b).

Definition toy_beq := beq (list Z) unit toy_exec eq.

Lemma toy_beq_iff b b' : toy_beq b b' <-> lines b = lines b'.
Proof.
  unfold toy_beq, beq, toy_exec. split.
  - intros H. destruct (H [] [] eq_refl) as [_ E]. exact E.
  - intros E e e' ->. cbn [fst snd]. rewrite E. split; reflexivity.
Qed.

Lemma toy_bodies (bs bs' : list (Z * list stmt)) :
  Forall2 (fun p p' => fst p = fst p' /\ toy_beq (snd p) (snd p')) bs bs' ->
  flat_map (fun p => fst p :: flat_map lines_stmt (snd p)) bs
  = flat_map (fun p => fst p :: flat_map lines_stmt (snd p)) bs'.
Proof.
  induction 1 as [|p p' bs bs' [H1 H2] _ IH]; [reflexivity|].
  cbn [flat_map]. rewrite IH, H1. apply toy_beq_iff in H2. unfold lines in H2. rewrite H2. reflexivity.
Qed.

(* Non-vacuity of C08_behaviour: the trace semantics satisfies every Section hypothesis
   (with eqv := eq and every name good), so the theorem applies to it; its conclusion
   there says that the rewritten program visits the same original lines in the same order. *)
Theorem behaviour_nonvacuous c body :
  snd (toy_exec (transform c body) []) = snd (toy_exec (pre c body) []).
Proof.
  refine (proj2 (behaviour (list Z) unit toy_exec (fun _ => true) tt eq
                           (fun e => eq_refl) (fun a b E => eq_sym E) (fun a b c E1 E2 => eq_trans E1 E2)
                           _ _ _ _ _ _ _ (fun _ => true) _ c body (fun _ _ => eq_refl) [])).
  - intros e. unfold toy_exec. cbn. rewrite app_nil_r. reflexivity.
  - intros a b e. unfold toy_exec, lines. cbn [fst snd]. rewrite flat_map_app, app_assoc. reflexivity.
  - intros s _. apply toy_beq_iff. reflexivity.
  - intros a n ds b b' l Hb. apply toy_beq_iff. apply toy_beq_iff in Hb. unfold lines in *.
    cbn [flat_map lines_stmt]. rewrite Hb. reflexivity.
  - intros n i b b' l Hb. apply toy_beq_iff. apply toy_beq_iff in Hb. unfold lines in *.
    cbn [flat_map lines_stmt]. rewrite Hb. reflexivity.
  - intros i bs bs' l Hbs. apply toy_beq_iff. unfold lines. cbn [flat_map lines_stmt].
    rewrite (toy_bodies bs bs' Hbs). reflexivity.
  - intros a n ds b l. apply toy_beq_iff. reflexivity.
  - intros n loc _. apply toy_beq_iff. reflexivity.
Qed.

Example behaviour_example :
  toy_exec [FuncDef false "f" [DName profile_name]
              [Import [("os", None)] 2; ProfCall "os" (Some 1); Other 0 3] 1] []
  = (tt, [1; 2; 3]).
Proof. reflexivity. Qed.
