(* Lemmas in exactly the shape Props/C09.v and Props/C08.v state them. *)
From LP Require Import Prelude.Py Prelude.PyLemmas Gen.RelImport Gen.Select
     Ast.AstLite Ast.AuxStr Ast.Select Ast.SelectGen Ast.Transform Ast.TransformFacts Ast.Behaviour.

(* ---- C09 ------------------------------------------------------------------------------- *)
Lemma whole_script c body t' :
  c_full c = true -> transform c body = Ok t' ->
  funcs t' = map deco_once (funcs (pre c body))
  /\ erase t' = erase (pre c body)
  /\ (forall f, In f (funcs t') -> has_profile (fh_decos f) = true).
Proof.
  intros Hf H. split; [|split].
  - rewrite (funcs_transform c body t' H), Hf. reflexivity.
  - apply (erase_transform c body t' H).
  - apply (whole_script_all_profiled c body t' Hf H).
Qed.

Lemma whole_script_clean c body t' :
  c_full c = true -> clean (pre c body) = true -> transform c body = Ok t' ->
  erase t' = pre c body /\ (forall f, In f (funcs t') -> once_innermost f = true).
Proof.
  intros Hf Hc H. split.
  - apply (erase_transform_clean c body t' H Hc).
  - apply (whole_script_once_innermost c body t' Hf Hc H).
Qed.

Lemma registered_names c body t' :
  transform c body = Ok t' -> c_full c = false \/ c_imports c = false ->
  exists d, select (c_sel c) (pre c body) = Ok d
            /\ forall y, In y (regs t') <-> In y (map snd d) \/ In y (regs (pre c body)).
Proof.
  intros H Hcfg. destruct (transform_ok c body t' H) as [d [Hd _]]. exists d. split; [exact Hd|].
  apply (regs_transform c body t' d H Hd Hcfg).
Qed.

Lemma nothing_else_registered c body t' :
  transform c body = Ok t' -> c_full c = false \/ c_imports c = false ->
  forall y, In y (regs t') ->
            (exists k, In (k, y) (wanted (c_sel c) (pre c body))) \/ In y (regs (pre c body)).
Proof.
  intros H Hcfg y Hy. destruct (registered_names c body t' H Hcfg) as [d [Hd Hiff]].
  destruct (proj1 (Hiff y) Hy) as [Hm|Hr]; [left|right; exact Hr].
  apply in_map_iff in Hm as [[k v] [E Hin]]. cbn [snd] in E. subst v. exists k.
  apply (selection_sound (c_sel c) (pre c body) d Hd). exact Hin.
Qed.

(* the full exactness statement, as the property words it *)
Definition selection_exact_statement : Prop :=
  forall S body d, no_bare_relative body = true -> select S body = Ok d ->
                   forall p, In p d <-> In p (wanted S body).

Lemma selection_exact_refuted : ~ selection_exact_statement.
Proof.
  intros H. destruct same_statement_refuted as [S [body [d [p [Hb [Hs [Hw Hn]]]]]]].
  apply Hn. apply (H S body d Hb Hs p). exact Hw.
Qed.

Lemma parent_whole_component :
  (forall a b, no_char dot b = true -> parent (a ++ "." ++ b) = a)
  /\ (forall s, no_char dot s = true -> parent s = s).
Proof. split; [exact parent_dotted|exact parent_nodot]. Qed.

Lemma translated_agrees :
  (forall body, gen_get_imports body = get_imports body)
  /\ (forall S mdl, gen_find_modnames S mdl = Ok (find_modnames S mdl))
  /\ (forall S body, gen_select S body = select S body).
Proof. split; [exact gen_get_imports_eq|split; [exact gen_find_modnames_eq|exact gen_select_eq]]. Qed.

Definition nv_body : list stmt :=
  [ImportFrom (Some "pkg") [("mod_a", None)] 0 1;
   Import [("pkgx.mod_a", Some "z"); ("os", None)] 2;
   FuncDef false "f" [DOther 7]
     [Compound 1 [(4, [FuncDef true "g" [] [Other 2 6] 5])] 4;
      ClassDef "K" 0 [FuncDef false "m" [DName "staticmethod"] [Other 3 9] 8] 7] 3].
Definition nv_cfg : cfg := Build_cfg true false None ["pkg"].

Lemma c09_nonvacuous :
  clean nv_body = true /\ no_bare_relative nv_body = true
  /\ NoDup (map fst (wanted ["pkg"] nv_body))
  /\ wanted ["pkg"] nv_body = [(0, "mod_a")]
  /\ transform nv_cfg nv_body
     = Ok [ImportFrom (Some "pkg") [("mod_a", None)] 0 1;
           ProfCall "mod_a" (Some 1);
           Import [("pkgx.mod_a", Some "z"); ("os", None)] 2;
           FuncDef false "f" [DOther 7; DName "profile"]
             [Compound 1 [(4, [FuncDef true "g" [DName "profile"] [Other 2 6] 5])] 4;
              ClassDef "K" 0 [FuncDef false "m" [DName "staticmethod"; DName "profile"] [Other 3 9] 8] 7] 3].
Proof.
  split; [reflexivity|]. split; [reflexivity|]. split; [|split; vm_compute; reflexivity].
  vm_compute. constructor; [intros []|constructor].
Qed.

(* ---- C08 ------------------------------------------------------------------------------- *)
Lemma erasure c body t' :
  transform c body = Ok t' ->
  erase t' = erase (pre c body) /\ (clean (pre c body) = true -> erase t' = pre c body).
Proof.
  intros H. split; [apply (erase_transform c body t' H)|apply (erase_transform_clean c body t' H)].
Qed.

Lemma pre_script c body : c_module c = None -> pre c body = body.
Proof. unfold pre. intros ->. reflexivity. Qed.

Lemma pre_module c m body : c_module c = Some m -> pre c body = absolutize m body.
Proof. unfold pre. intros ->. reflexivity. Qed.

Lemma decorator_innermost_once c body t' :
  transform c body = Ok t' ->
  funcs t' = (if c_full c then map deco_once (funcs (pre c body)) else funcs (pre c body))
  /\ (forall f, fh_decos (deco_once f)
                = if has_profile (fh_decos f) then fh_decos f else fh_decos f ++ [DName profile_name])
  /\ (c_full c = true -> clean (pre c body) = true -> forall f, In f (funcs t') -> once_innermost f = true).
Proof.
  intros H. split; [apply (funcs_transform c body t' H)|]. split; [intros f; reflexivity|].
  intros Hf Hc. apply (whole_script_once_innermost c body t' Hf Hc H).
Qed.

Lemma rewrite_defined c body :
  (no_bare_relative (pre c body) = true -> exists t', transform c body = Ok t')
  /\ (no_bare_relative (pre c body) = false -> transform c body = Err TypeError).
Proof. split; [apply transform_total|apply transform_bare_relative]. Qed.

(* "every inserted statement carries the line of the import it follows" *)
Definition located_statement : Prop :=
  forall c body t', transform c body = Ok t' -> located body = true -> located t' = true.

Definition loc_cfg : cfg := Build_cfg true true None [].
(* def f():            line 1
       import os       line 2   -> the inserted call gets line 1 (the def) *)
Definition loc_body_fn : list stmt := [FuncDef false "f" [] [Import [("os", None)] 2] 1].
(* x = 1               line 1
   import pkg          line 2   -> the inserted call gets line 1 (module level) *)
Definition loc_body_mod : list stmt := [Other 0 1; Import [("pkg", None)] 2].

Lemma located_witnesses :
  transform loc_cfg loc_body_fn
  = Ok [FuncDef false "f" [DName "profile"] [Import [("os", None)] 2; ProfCall "os" (Some 1)] 1]
  /\ transform (Build_cfg false false None ["pkg"]) loc_body_mod
     = Ok [Other 0 1; Import [("pkg", None)] 2; ProfCall "pkg" (Some 1)]
  /\ located loc_body_fn = true /\ located loc_body_mod = true.
Proof. repeat split; vm_compute; reflexivity. Qed.

Lemma located_refuted : ~ located_statement.
Proof.
  intros H. specialize (H loc_cfg loc_body_fn _ (proj1 located_witnesses) eq_refl). vm_compute in H. discriminate.
Qed.

(* "a valid placement of `from __future__ import` stays valid" *)
Definition future_statement : Prop :=
  forall c body t', transform c body = Ok t' -> future_ok body = true -> future_ok t' = true.

Definition fut_body : list stmt :=
  [ImportFrom (Some "__future__") [("annotations", None)] 0 1;
   ImportFrom (Some "__future__") [("division", None)] 0 2].

Lemma future_refuted : ~ future_statement.
Proof.
  intros H.
  assert (E : transform loc_cfg fut_body
              = Ok [ImportFrom (Some "__future__") [("annotations", None)] 0 1; ProfCall "annotations" (Some 1);
                    ImportFrom (Some "__future__") [("division", None)] 0 2; ProfCall "division" (Some 1)])
    by (vm_compute; reflexivity).
  specialize (H loc_cfg fut_body _ E eq_refl). vm_compute in H. discriminate.
Qed.

(* "no registration call is made for `*`" *)
Definition star_statement : Prop :=
  forall c body t', transform c body = Ok t' -> star_free body = true -> star_free t' = true.

Lemma star_refuted :
  ~ star_statement
  /\ transform loc_cfg [ImportFrom (Some "os") [("*", None)] 0 1]
     = Ok [ImportFrom (Some "os") [("*", None)] 0 1; ProfCall "*" (Some 1)]
  /\ transform (Build_cfg false false None ["pkg"]) [ImportFrom (Some "pkg") [("*", None)] 0 1]
     = Ok [ImportFrom (Some "pkg") [("*", None)] 0 1; ProfCall "*" (Some 1)].
Proof.
  split; [|split; vm_compute; reflexivity].
  intros H.
  assert (E : transform loc_cfg [ImportFrom (Some "os") [("*", None)] 0 1]
              = Ok [ImportFrom (Some "os") [("*", None)] 0 1; ProfCall "*" (Some 1)]) by (vm_compute; reflexivity).
  specialize (H loc_cfg _ _ E eq_refl). vm_compute in H. discriminate.
Qed.

Lemma c08_nonvacuous :
  (forall c body t', transform c body = Ok t' -> snd (toy_exec t' []) = snd (toy_exec (pre c body) []))
  /\ clean nv_body = true
  /\ (exists t', transform nv_cfg nv_body = Ok t' /\ erase t' = nv_body /\ lines t' = [1; 2; 3; 4; 4; 5; 6; 7; 8; 9]).
Proof.
  split; [exact behaviour_nonvacuous|]. split; [reflexivity|].
  destruct c09_nonvacuous as [_ [_ [_ [_ E]]]]. eexists. split; [exact E|]. split; vm_compute; reflexivity.
Qed.
