(* Lemmas in exactly the shape Props/C09.v and Props/C08.v state them. *)
From LP Require Import Prelude.Py Prelude.PyLemmas Gen.RelImport Gen.Select
     Ast.AstLite Ast.AuxStr Ast.Select Ast.SelectGen Ast.Transform Ast.TransformFacts.

(* ---- C09 ------------------------------------------------------------------------------- *)
Lemma whole_script c body t' :
  c_full c = true -> transform c body = Ok t' ->
  funcs t' = map deco_once (funcs (pre c body))
  /\ erase t' = erase (pre c body)
  /\ (forall f, In f (funcs t') -> has_profile (fh_decos f) = true).
Proof.
  intros Hf H. split; [|split].
  - rewrite (funcs_transform c body t' H), Hf. reflexivity.
  - apply (erase_transform c body t' H).
  - apply (whole_script_all_profiled c body t' Hf H).
Qed.

Lemma whole_script_clean c body t' :
  c_full c = true -> clean (pre c body) = true -> transform c body = Ok t' ->
  erase t' = pre c body /\ (forall f, In f (funcs t') -> once_innermost f = true).
Proof.
  intros Hf Hc H. split.
  - apply (erase_transform_clean c body t' H Hc).
  - apply (whole_script_once_innermost c body t' Hf Hc H).
Qed.

Lemma registered_names c body t' :
  transform c body = Ok t' -> c_full c = false \/ c_imports c = false ->
  exists d, select (c_sel c) (pre c body) = Ok d
            /\ forall y, In y (regs t') <-> In y (map snd d) \/ In y (regs (pre c body)).
Proof.
  intros H Hcfg. destruct (transform_ok c body t' H) as [d [Hd _]]. exists d. split; [exact Hd|].
  apply (regs_transform c body t' d H Hd Hcfg).
Qed.

Lemma nothing_else_registered c body t' :
  transform c body = Ok t' -> c_full c = false \/ c_imports c = false ->
  forall y, In y (regs t') ->
            (exists k, In (k, y) (wanted (c_sel c) (pre c body))) \/ In y (regs (pre c body)).
Proof.
  intros H Hcfg y Hy. destruct (registered_names c body t' H Hcfg) as [d [Hd Hiff]].
  destruct (proj1 (Hiff y) Hy) as [Hm|Hr]; [left|right; exact Hr].
  apply in_map_iff in Hm as [[k v] [E Hin]]. cbn [snd] in E. subst v. exists k.
  apply (selection_sound (c_sel c) (pre c body) d Hd). exact Hin.
Qed.

(* the full exactness statement, as the property words it *)
Definition selection_exact_statement : Prop :=
  forall S body d, no_bare_relative body = true -> select S body = Ok d ->
                   forall p, In p d <-> In p (wanted S body).

Lemma selection_exact_refuted : ~ selection_exact_statement.
Proof.
  intros H. destruct same_statement_refuted as [S [body [d [p [Hb [Hs [Hw Hn]]]]]]].
  apply Hn. apply (H S body d Hb Hs p). exact Hw.
Qed.

Lemma parent_whole_component :
  (forall a b, no_char dot b = true -> parent (a ++ "." ++ b) = a)
  /\ (forall s, no_char dot s = true -> parent s = s).
Proof. split; [exact parent_dotted|exact parent_nodot]. Qed.

Lemma translated_agrees :
  (forall body, gen_get_imports body = get_imports body)
  /\ (forall S mdl, gen_find_modnames S mdl = Ok (find_modnames S mdl))
  /\ (forall S body, gen_select S body = select S body).
Proof. split; [exact gen_get_imports_eq|split; [exact gen_find_modnames_eq|exact gen_select_eq]]. Qed.

Definition nv_body : list stmt :=
  [ImportFrom (Some "pkg") [("mod_a", None)] 0 1;
   Import [("pkgx.mod_a", Some "z"); ("os", None)] 2;
   FuncDef false "f" [DOther 7]
     [Compound 1 [(4, [FuncDef true "g" [] [Other 2 6] 5])] 4;
      ClassDef "K" 0 [FuncDef false "m" [DName "staticmethod"] [Other 3 9] 8] 7] 3].
Definition nv_cfg : cfg := Build_cfg true false None ["pkg"].

Lemma c09_nonvacuous :
  clean nv_body = true /\ no_bare_relative nv_body = true
  /\ NoDup (map fst (wanted ["pkg"] nv_body))
  /\ wanted ["pkg"] nv_body = [(0, "mod_a")]
  /\ transform nv_cfg nv_body
     = Ok [ImportFrom (Some "pkg") [("mod_a", None)] 0 1;
           ProfCall "mod_a" (Some 1);
           Import [("pkgx.mod_a", Some "z"); ("os", None)] 2;
           FuncDef false "f" [DOther 7; DName "profile"]
             [Compound 1 [(4, [FuncDef true "g" [DName "profile"] [Other 2 6] 5])] 4;
              ClassDef "K" 0 [FuncDef false "m" [DName "staticmethod"; DName "profile"] [Other 3 9] 8] 7] 3].
Proof.
  split; [reflexivity|]. split; [reflexivity|]. split; [|split; vm_compute; reflexivity].
  vm_compute. constructor; [intros []|constructor].
Qed.
