(* Lemmas in exactly the shape Props/C09.v and Props/C08.v state them. *)
From LP Require Import Prelude.Py Prelude.PyLemmas Gen.RelImport Gen.Select
     Ast.AstLite Ast.AuxStr Ast.Select Ast.SelectGen Ast.Transform Ast.TransformFacts
     Ast.Placement Ast.Behaviour.

(* ---- C09 ------------------------------------------------------------------------------- *)
Lemma whole_script c body :
  c_full c = true ->
  funcs (transform c body) = map deco_once (funcs (pre c body))
  /\ erase (transform c body) = erase (pre c body)
  /\ (forall f, In f (funcs (transform c body)) -> has_profile (fh_decos f) = true).
Proof.
  intros Hf. split; [|split].
  - rewrite funcs_transform, Hf. reflexivity.
  - apply erase_transform.
  - apply (whole_script_all_profiled c body Hf).
Qed.

Lemma whole_script_clean c body :
  c_full c = true -> clean (pre c body) = true ->
  erase (transform c body) = pre c body
  /\ (forall f, In f (funcs (transform c body)) -> once_innermost f = true).
Proof.
  intros Hf Hc. split; [apply (erase_transform_clean c body Hc)|apply (whole_script_once_innermost c body Hf Hc)].
Qed.

Lemma selection_exact_order S body :
  (forall p, In p (dict_items (select S body)) <-> In p (wanted S body))
  /\ (forall k, dict_names (select S body) k = map snd (filter (fun kv => Z.eqb (fst kv) k) (wanted S body)))
  /\ NoDup (map fst (select S body)).
Proof.
  split; [intros p; apply selection_exact|]. split; [intros k; apply selection_order|apply select_keys_nodup].
Qed.

(* the registrations sit directly behind their import statement, in order, with its line *)
Lemma registrations_follow_import c body :
  fst (insert_regs (select (c_sel c) (pre c body)) (pre c body))
  = expand (dict_names (select (c_sel c) (pre c body))) 0 (pre c body).
Proof. apply insert_regs_expand. apply select_keys_nodup. Qed.

Lemma parent_whole_component :
  (forall a b, no_char dot b = true -> parent (a ++ "." ++ b) = a)
  /\ (forall s, no_char dot s = true -> parent s = s).
Proof. split; [exact parent_dotted|exact parent_nodot]. Qed.

Lemma translated_agrees :
  (forall body, gen_get_imports body = Ok (get_imports body))
  /\ (forall S mdl, gen_find_modnames S mdl = Ok (find_modnames S mdl))
  /\ (forall S body, gen_select S body = Ok (select S body)).
Proof. split; [exact gen_get_imports_eq|split; [exact gen_find_modnames_eq|exact gen_select_eq]]. Qed.

Definition nv_body : list stmt :=
  [ImportFrom (Some "pkg") [("mod_a", None); ("*", None); ("mod_b", Some "b")] 0 1;
   Import [("pkgx.mod_a", Some "z"); ("os", None)] 2;
   FuncDef false "f" [DOther 7]
     [Compound 1 [(4, [FuncDef true "g" [] [Other 2 6] 5])] 4;
      ClassDef "K" 0 [FuncDef false "m" [DName "staticmethod"] [Other 3 9] 8] 7] 3].
Definition nv_cfg : cfg := Build_cfg true false None ["pkg"].

Lemma c09_nonvacuous :
  clean nv_body = true
  /\ wanted ["pkg"] nv_body = [(0, "mod_a"); (0, "b")]
  /\ select ["pkg"] nv_body = [(0, ["mod_a"; "b"])]
  /\ transform nv_cfg nv_body
     = [ImportFrom (Some "pkg") [("mod_a", None); ("*", None); ("mod_b", Some "b")] 0 1;
        ProfCall "mod_a" (Some 1); ProfCall "b" (Some 1);
        Import [("pkgx.mod_a", Some "z"); ("os", None)] 2;
        FuncDef false "f" [DOther 7; DName "profile"]
          [Compound 1 [(4, [FuncDef true "g" [DName "profile"] [Other 2 6] 5])] 4;
           ClassDef "K" 0 [FuncDef false "m" [DName "staticmethod"; DName "profile"] [Other 3 9] 8] 7] 3].
Proof. repeat split; vm_compute; reflexivity. Qed.

(* ---- C08 ------------------------------------------------------------------------------- *)
Lemma erasure c body :
  erase (transform c body) = erase (pre c body)
  /\ (clean (pre c body) = true -> erase (transform c body) = pre c body).
Proof. split; [apply erase_transform|apply erase_transform_clean]. Qed.

Lemma pre_script c body : c_module c = None -> pre c body = body.
Proof. unfold pre. intros ->. reflexivity. Qed.

Lemma pre_module c m body : c_module c = Some m -> pre c body = absolutize m body.
Proof. unfold pre. intros ->. reflexivity. Qed.

Lemma decorator_innermost_once c body :
  funcs (transform c body) = (if c_full c then map deco_once (funcs (pre c body)) else funcs (pre c body))
  /\ (forall f, fh_decos (deco_once f)
                = if has_profile (fh_decos f) then fh_decos f else fh_decos f ++ [DName profile_name])
  /\ (c_full c = true -> clean (pre c body) = true ->
      forall f, In f (funcs (transform c body)) -> once_innermost f = true).
Proof.
  split; [apply funcs_transform|]. split; [intros f; reflexivity|].
  intros Hf Hc. apply (whole_script_once_innermost c body Hf Hc).
Qed.

Lemma located_full c body :
  (located (pre c body) = true -> located (transform c body) = true)
  /\ (located body = true -> located (pre c body) = true).
Proof. split; [apply located_transform|apply located_pre]. Qed.

(* a top-level `from . import x` (module None) is simply not a candidate any more *)
Lemma bare_relative_ignored :
  transform (Build_cfg true true None ["sibling_mod"])
            [Other 0 1; ImportFrom None [("sibling_mod", None)] 1 2; Other 1 3]
  = [Other 0 1; ImportFrom None [("sibling_mod", None)] 1 2; ProfCall "sibling_mod" (Some 2); Other 1 3]
  /\ select ["sibling_mod"; "."] [ImportFrom None [("sibling_mod", None)] 1 2] = [].
Proof. split; vm_compute; reflexivity. Qed.

Lemma c08_examples :
  (* in-function import: the inserted call carries line 3, not the `def` line 2 *)
  transform (Build_cfg true true None ["json"])
            [Import [("json", None)] 1; FuncDef false "f" [] [Import [("os", None)] 3] 2]
  = [Import [("json", None)] 1; ProfCall "json" (Some 1);
     FuncDef false "f" [DName "profile"] [Import [("os", None)] 3; ProfCall "os" (Some 3)] 2]
  (* two __future__ imports, --prof-imports and `-p __future__`: untouched *)
  /\ transform (Build_cfg true true None ["__future__"])
               [ImportFrom (Some "__future__") [("annotations", None)] 0 1;
                ImportFrom (Some "__future__") [("division", None)] 0 2]
     = [ImportFrom (Some "__future__") [("annotations", None)] 0 1;
        ImportFrom (Some "__future__") [("division", None)] 0 2]
  (* a star import: no registration, with --prof-imports and with the module selected *)
  /\ transform (Build_cfg true true None ["pkg"]) [ImportFrom (Some "pkg") [("*", None)] 0 1]
     = [ImportFrom (Some "pkg") [("*", None)] 0 1].
Proof. repeat split; vm_compute; reflexivity. Qed.

Lemma c08_nonvacuous :
  (forall c body, snd (toy_exec (transform c body) []) = snd (toy_exec (pre c body) []))
  /\ clean nv_body = true /\ located nv_body = true /\ future_ok nv_body = true
  /\ star_grammar nv_body = true /\ star_free nv_body = true
  /\ erase (transform nv_cfg nv_body) = nv_body
  /\ lines (transform nv_cfg nv_body) = [1; 2; 3; 4; 4; 5; 6; 7; 8; 9].
Proof.
  split; [exact behaviour_nonvacuous|]. repeat split; vm_compute; reflexivity.
Qed.
