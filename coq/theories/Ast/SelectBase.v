(* Definitions shared by the translated (Gen/Select.v) and the hand-written
   (Ast/Select.v) reading of profmod_extractor.py: the dict entries, python's
   `a or b` on an optional string, an insertion-ordered int->[str] dict, and the
   reading of `for x in l:` / `for i, x in enumerate(l):` the translator emits. *)
From LP Require Import Prelude.Py Ast.AstLite.

(* one entry of module_dict_list: {'name', 'alias', 'tree_index'} *)
Record imp := { i_name : string; i_alias : option string; i_idx : Z }.

(* python's  a or b  on an optional string a and a string b *)
Definition str_or (a : option string) (d : string) : string :=
  match a with Some s => if str_empty s then d else s | None => d end.

(* modnames_found_in_tree: an insertion-ordered dict  int -> list of str  with unique keys *)
Definition dict := list (Z * list string).

(* d.setdefault(k, []).append(v) *)
Fixpoint dict_add (d : dict) (k : Z) (v : string) : dict :=
  match d with
  | [] => [(k, [v])]
  | (k', vs) :: r => if Z.eqb k' k then (k', vs ++ [v]) :: r else (k', vs) :: dict_add r k v
  end.

Fixpoint dict_get (d : dict) (k : Z) : option (list string) :=
  match d with
  | [] => None
  | (k', vs) :: r => if Z.eqb k' k then Some vs else dict_get r k
  end.

(* d.get(k, []) *)
Definition dict_names (d : dict) (k : Z) : list string :=
  match dict_get d k with Some vs => vs | None => [] end.

(* all (key, name) pairs *)
Definition dict_items (d : dict) : list (Z * string) :=
  flat_map (fun kv => map (pair (fst kv)) (snd kv)) d.

(* `for x in l: body` with the assigned variables threaded as state; an exception
   raised by the body ends the loop *)
Fixpoint py_for {A St} (l : list A) (st : St) (f : St -> A -> res St) : res St :=
  match l with
  | [] => Ok st
  | a :: r => match f st a with Ok st' => py_for r st' f | Err e => Err e end
  end.

Fixpoint py_for_enum_from {A St} (i : Z) (l : list A) (st : St) (f : St -> Z -> A -> res St) : res St :=
  match l with
  | [] => Ok st
  | a :: r => match f st i a with Ok st' => py_for_enum_from (i + 1) r st' f | Err e => Err e end
  end.
Definition py_for_enum {A St} (l : list A) (st : St) (f : St -> Z -> A -> res St) : res St :=
  py_for_enum_from 0 l st f.

Lemma py_for_ok {A St} (g : St -> A -> St) (f : St -> A -> res St) :
  (forall st a, f st a = Ok (g st a)) -> forall l st, py_for l st f = Ok (fold_left g l st).
Proof.
  intros H. induction l as [|a l IH]; intros st; cbn [py_for fold_left]; [reflexivity|].
  rewrite H. apply IH.
Qed.

Lemma py_for_enum_from_ok {A St} (g : St -> A -> St) (f : St -> Z -> A -> res St) :
  (forall st i a, f st i a = Ok (g st a)) ->
  forall l i st, py_for_enum_from i l st f = Ok (fold_left g l st).
Proof.
  intros H. induction l as [|a l IH]; intros i st; cbn [py_for_enum_from fold_left]; [reflexivity|].
  rewrite H. apply IH.
Qed.
