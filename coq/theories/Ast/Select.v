(* Select: which top-level imports of the script get a registration statement.
   Statement-by-statement model of
     ProfmodExtractor._ast_get_imports_from_tree     (profmod_extractor.py:130-175)
     ProfmodExtractor._find_modnames_in_tree_imports (profmod_extractor.py:177-215)
   (the same two functions are regenerated from the source into Gen/Select.v by
   the translator; Ast/SelectGen.v proves the two readings equal), the
   specification [wanted] read off property C09, and the theorems relating them. *)
From LP Require Import Prelude.Py Prelude.PyLemmas Ast.AstLite Ast.AuxStr.
From LP Require Export Ast.SelectBase.

(* ---- _ast_get_imports_from_tree ------------------------------------------------- *)
Definition gi_state := (list imp * list string)%type.   (* module_dict_list, modname_list *)

Definition add_entry (st : gi_state) (modname : string) (al : option string) (idx : Z) : gi_state :=
  if str_in modname (snd st) then st
  else (fst st ++ [Build_imp modname al idx], snd st ++ [modname]).

Definition add_import (idx : Z) (st : gi_state) (a : alias) : gi_state :=
  add_entry st (fst a) (snd a) idx.

Definition add_from (idx : Z) (m : string) (st : gi_state) (a : alias) : gi_state :=
  add_entry st (m ++ "." ++ fst a) (Some (str_or (snd a) (fst a))) idx.

(* node.module + '.' + name.name raises TypeError when node.module is None
   (`from . import x`), as soon as there is a name to iterate over *)
Fixpoint get_imports_from (idx : Z) (body : list stmt) (st : gi_state) : res gi_state :=
  match body with
  | [] => Ok st
  | Import ns _ :: r => get_imports_from (idx + 1) r (fold_left (add_import idx) ns st)
  | ImportFrom m ns _ _ :: r =>
      match m with
      | Some m => get_imports_from (idx + 1) r (fold_left (add_from idx m) ns st)
      | None => if list_empty ns then get_imports_from (idx + 1) r st else Err TypeError
      end
  | _ :: r => get_imports_from (idx + 1) r st
  end.

Definition get_imports (body : list stmt) : res (list imp) :=
  match get_imports_from 0 body ([], []) with Ok st => Ok (fst st) | Err e => Err e end.

(* ---- _find_modnames_in_tree_imports --------------------------------------------- *)
Definition matches (S : list string) (n : string) : bool := str_in n S || str_in (parent n) S.

Definition reg_name (m : imp) : string := str_or (i_alias m) (i_name m).

Definition fm_state := (dict * list string)%type.   (* modnames_found_in_tree, modname_added_list *)

Definition find_step (S : list string) (st : fm_state) (m : imp) : fm_state :=
  if str_in (i_name m) (snd st) then st
  else if negb (str_in (i_name m) S) && negb (str_in (parent (i_name m)) S) then st
  else (dict_set (fst st) (i_idx m) (reg_name m), snd st ++ [i_name m]).

Definition find_modnames (S : list string) (mdl : list imp) : dict :=
  fst (fold_left (find_step S) mdl ([], [])).

(* ProfmodExtractor.run(), given the resolved selection S (modnames_to_profile) *)
Definition select (S : list string) (body : list stmt) : res dict :=
  match get_imports body with Ok mdl => Ok (find_modnames S mdl) | Err e => Err e end.

(* ---- specification (property C09, second sentence) ------------------------------ *)
(* every name bound by a top-level import statement, with the index of its statement *)
Definition binds_of_stmt (idx : Z) (s : stmt) : list imp :=
  match s with
  | Import ns _ => map (fun a => Build_imp (fst a) (snd a) idx) ns
  | ImportFrom (Some m) ns _ _ =>
      map (fun a : alias => Build_imp (m ++ "." ++ fst a) (Some (str_or (snd a) (fst a))) idx) ns
  | _ => []
  end.

Fixpoint all_bindings_from (idx : Z) (body : list stmt) : list imp :=
  match body with
  | [] => []
  | s :: r => binds_of_stmt idx s ++ all_bindings_from (idx + 1) r
  end.
Definition all_bindings (body : list stmt) : list imp := all_bindings_from 0 body.

(* the first binding of every real name (registering a module twice adds nothing) *)
Fixpoint first_by_name (seen : list string) (l : list imp) : list imp :=
  match l with
  | [] => []
  | m :: r => if str_in (i_name m) seen then first_by_name seen r
              else m :: first_by_name (seen ++ [i_name m]) r
  end.

Definition selected (S : list string) (m : imp) : bool := matches S (i_name m).

(* (statement index, name handed to the registration call) the property demands:
   the alias of b for every first top-level binding b whose real name, or the parent
   of whose real name, is in the selection *)
Definition wanted (S : list string) (body : list stmt) : list (Z * string) :=
  map (fun m => (i_idx m, reg_name m)) (filter (selected S) (first_by_name [] (all_bindings body))).

(* no `from . import x` at top level (module None) *)
Definition no_bare_relative (body : list stmt) : bool :=
  forallb (fun s => match s with ImportFrom None ns _ _ => list_empty ns | _ => true end) body.

(* ---- get_imports computes the first bindings ------------------------------------ *)
Lemma first_by_name_app seen l1 l2 :
  first_by_name seen (l1 ++ l2)
  = first_by_name seen l1 ++ first_by_name (seen ++ map i_name (first_by_name seen l1)) l2.
Proof.
  revert seen. induction l1 as [|m l1 IH]; intros seen; cbn [app first_by_name map].
  - rewrite app_nil_r. reflexivity.
  - destruct (str_in (i_name m) seen); [apply IH|].
    cbn [app map]. rewrite IH. rewrite <- app_assoc. reflexivity.
Qed.

Lemma fold_entries {A} (mk : A -> imp) (step : gi_state -> A -> gi_state) :
  (forall st a, step st a = add_entry st (i_name (mk a)) (i_alias (mk a)) (i_idx (mk a))) ->
  forall ns mdl names,
    fold_left step ns (mdl, names)
    = (mdl ++ first_by_name names (map mk ns),
       names ++ map i_name (first_by_name names (map mk ns))).
Proof.
  intros Hstep. induction ns as [|a ns IH]; intros mdl names; cbn [fold_left map first_by_name].
  - rewrite !app_nil_r. reflexivity.
  - rewrite Hstep. unfold add_entry. cbn [fst snd].
    destruct (str_in (i_name (mk a)) names) eqn:E.
    + apply IH.
    + rewrite IH. cbn [map]. rewrite <- !app_assoc. cbn [app].
      destruct (mk a) as [n al ix]; reflexivity.
Qed.

Lemma get_imports_from_spec body : forall idx mdl names,
  no_bare_relative body = true ->
  get_imports_from idx body (mdl, names)
  = Ok (mdl ++ first_by_name names (all_bindings_from idx body),
        names ++ map i_name (first_by_name names (all_bindings_from idx body))).
Proof.
  induction body as [|s r IH]; intros idx mdl names Hn.
  - cbn. rewrite !app_nil_r. reflexivity.
  - cbn [no_bare_relative forallb] in Hn. apply andb_prop in Hn as [Hs Hr].
    change (forallb _ r) with (no_bare_relative r) in Hr.
    cbn [all_bindings_from]. rewrite first_by_name_app.
    destruct s as [a n ds b l|n i b l|ns l|m ns lv l|i bs l|i l|n loc];
      cbn [get_imports_from binds_of_stmt first_by_name app map];
      try (rewrite IH by exact Hr; rewrite ?app_nil_r; reflexivity).
    + (* Import *)
      rewrite (fold_entries (fun a : alias => Build_imp (fst a) (snd a) idx) (add_import idx))
        by (intros st a; reflexivity).
      rewrite IH by exact Hr. rewrite map_app, !app_assoc. reflexivity.
    + (* ImportFrom *)
      destruct m as [m|].
      * rewrite (fold_entries (fun a : alias => Build_imp (m ++ "." ++ fst a) (Some (str_or (snd a) (fst a))) idx)
                              (add_from idx m)) by (intros st a; reflexivity).
        rewrite IH by exact Hr. rewrite map_app, !app_assoc. reflexivity.
      * rewrite Hs. cbn [first_by_name app map]. rewrite IH by exact Hr. rewrite ?app_nil_r. reflexivity.
Qed.

Theorem get_imports_spec body :
  no_bare_relative body = true ->
  get_imports body = Ok (first_by_name [] (all_bindings body)).
Proof.
  intros H. unfold get_imports, all_bindings. rewrite get_imports_from_spec by exact H. reflexivity.
Qed.

(* a bare relative import at top level makes the extractor raise TypeError *)
Lemma get_imports_from_bare body : forall idx st,
  no_bare_relative body = false -> get_imports_from idx body st = Err TypeError.
Proof.
  induction body as [|s r IH]; intros idx st H; [discriminate|].
  cbn [no_bare_relative forallb] in H. change (forallb _ r) with (no_bare_relative r) in H.
  destruct s as [a n ds b l|n i b l|ns l|m ns lv l|i bs l|i l|n loc]; cbn [get_imports_from];
    try (apply IH; exact H).
  destruct m as [m|]; [apply IH; exact H|].
  destruct (list_empty ns); [apply IH; exact H|reflexivity].
Qed.

(* ---- names of first_by_name are distinct, so find's dedup never fires on them ---- *)
Lemma first_by_name_notin seen l x :
  str_in x seen = true -> ~ In x (map i_name (first_by_name seen l)).
Proof.
  revert seen. induction l as [|m l IH]; intros seen Hx; cbn [first_by_name map]; [tauto|].
  destruct (str_in (i_name m) seen) eqn:E; [apply IH; exact Hx|].
  cbn [map In]. intros [H|H].
  - subst. congruence.
  - revert H. apply IH. rewrite str_in_app, Hx. reflexivity.
Qed.

Lemma first_by_name_nodup seen l : NoDup (map i_name (first_by_name seen l)).
Proof.
  revert seen. induction l as [|m l IH]; intros seen; cbn [first_by_name map]; [constructor|].
  destruct (str_in (i_name m) seen) eqn:E; [apply IH|].
  cbn [map]. constructor; [|apply IH].
  apply first_by_name_notin. rewrite str_in_app. cbn [str_in existsb].
  rewrite String.eqb_refl, orb_true_r. reflexivity.
Qed.

Lemma first_by_name_id seen l :
  NoDup (map i_name l) -> (forall x, In x (map i_name l) -> str_in x seen = false) ->
  first_by_name seen l = l.
Proof.
  revert seen. induction l as [|m l IH]; intros seen Hnd Hd; cbn [first_by_name]; [reflexivity|].
  cbn [map] in Hnd, Hd. inversion Hnd as [|? ? Hm Hnd']; subst.
  rewrite (Hd (i_name m)) by (left; reflexivity). f_equal. apply IH; [exact Hnd'|].
  intros x Hx. rewrite str_in_app, (Hd x) by (right; exact Hx). cbn [str_in existsb orb].
  destruct (String.eqb_spec x (i_name m)) as [->|]; [contradiction|reflexivity].
Qed.

Lemma filter_names_incl {A} (f : A -> string) p (l : list A) x :
  In x (map f (filter p l)) -> In x (map f l).
Proof.
  rewrite !in_map_iff. intros [m [E H]]. apply filter_In in H as [H _]. exists m; split; assumption.
Qed.

Lemma nodup_map_filter {A B} (f : A -> B) p (l : list A) :
  NoDup (map f l) -> NoDup (map f (filter p l)).
Proof.
  induction l as [|a l IH]; cbn [map filter]; intros H; [constructor|].
  inversion H as [|? ? Ha Hl]; subst. destruct (p a); [|apply IH; exact Hl].
  cbn [map]. constructor; [|apply IH; exact Hl].
  intros Hin. apply Ha. rewrite in_map_iff in *. destruct Hin as [m [E Hm]].
  apply filter_In in Hm as [Hm _]. exists m; split; assumption.
Qed.

(* ---- find_modnames as dict_set over the selected first bindings ------------------- *)
Definition dict_set_all (d : dict) (kvs : list (Z * string)) : dict :=
  fold_left (fun d kv => dict_set d (fst kv) (snd kv)) kvs d.

Definition kv_of (m : imp) : Z * string := (i_idx m, reg_name m).

Lemma find_fold S mdl : forall d added,
  fold_left (find_step S) mdl (d, added)
  = (dict_set_all d (map kv_of (first_by_name added (filter (selected S) mdl))),
     added ++ map i_name (first_by_name added (filter (selected S) mdl))).
Proof.
  induction mdl as [|m mdl IH]; intros d added; cbn [fold_left filter].
  - cbn. rewrite app_nil_r. reflexivity.
  - assert (Hsel : negb (str_in (i_name m) S) && negb (str_in (parent (i_name m)) S) = negb (selected S m)).
    { unfold selected, matches. rewrite negb_orb. reflexivity. }
    replace (find_step S (d, added) m)
      with (if str_in (i_name m) added then (d, added)
            else if negb (selected S m) then (d, added)
                 else (dict_set d (i_idx m) (reg_name m), added ++ [i_name m]))
      by (unfold find_step; cbn [fst snd]; rewrite Hsel; reflexivity).
    destruct (selected S m) eqn:Es; cbn [negb].
    + cbn [first_by_name]. destruct (str_in (i_name m) added) eqn:Ea.
      * apply IH.
      * rewrite IH. cbn [map dict_set_all fold_left fst snd kv_of].
        rewrite <- app_assoc. reflexivity.
    + destruct (str_in (i_name m) added); apply IH.
Qed.

Lemma find_modnames_eq S mdl :
  NoDup (map i_name mdl) ->
  find_modnames S mdl = dict_set_all [] (map kv_of (filter (selected S) mdl)).
Proof.
  intros Hnd. unfold find_modnames. rewrite find_fold. cbn [fst].
  rewrite first_by_name_id; [reflexivity|apply nodup_map_filter; exact Hnd|reflexivity].
Qed.

Theorem select_eq S body :
  no_bare_relative body = true ->
  select S body = Ok (dict_set_all [] (wanted S body)).
Proof.
  intros H. unfold select. rewrite get_imports_spec by exact H.
  rewrite find_modnames_eq by apply first_by_name_nodup. reflexivity.
Qed.

(* ---- dict_set facts --------------------------------------------------------------- *)
Lemma dict_set_in d k v p : In p (dict_set d k v) -> p = (k, v) \/ In p d.
Proof.
  induction d as [|[k' v'] r IH]; cbn [dict_set In].
  - intros [H|[]]; left; congruence.
  - destruct (Z.eqb k' k); cbn [In]; intros [H|H]; auto.
    destruct (IH H); auto.
Qed.

Lemma dict_set_all_in kvs : forall d p, In p (dict_set_all d kvs) -> In p kvs \/ In p d.
Proof.
  induction kvs as [|[k v] kvs IH]; intros d p; cbn [dict_set_all fold_left fst snd In]; [auto|].
  intros H. apply IH in H as [H|H]; [auto|]. apply dict_set_in in H as [H|H]; auto.
Qed.

Lemma dict_set_fresh d k v :
  ~ In k (map fst d) -> dict_set d k v = d ++ [(k, v)].
Proof.
  induction d as [|[k' v'] r IH]; cbn [dict_set map fst In app]; intros H; [reflexivity|].
  destruct (Z.eqb_spec k' k) as [->|Hne]; [exfalso; apply H; left; reflexivity|].
  rewrite IH; [reflexivity|]. intros Hin; apply H; right; exact Hin.
Qed.

Lemma dict_set_all_fresh kvs : forall d,
  NoDup (map fst kvs) -> (forall k, In k (map fst kvs) -> ~ In k (map fst d)) ->
  dict_set_all d kvs = d ++ kvs.
Proof.
  induction kvs as [|[k v] kvs IH]; intros d Hnd Hd; cbn [dict_set_all fold_left fst snd].
  - rewrite app_nil_r. reflexivity.
  - cbn [map fst] in Hnd, Hd. inversion Hnd as [|? ? Hk Hnd']; subst.
    rewrite dict_set_fresh by (apply Hd; left; reflexivity).
    change (fold_left _ kvs (d ++ [(k, v)])) with (dict_set_all (d ++ [(k, v)]) kvs).
    rewrite IH; [rewrite <- app_assoc; reflexivity|exact Hnd'|].
    intros k0 Hk0. rewrite map_app, in_app_iff. cbn [map fst In].
    intros [H|[H|[]]]; [exact (Hd k0 (or_intror Hk0) H)|subst; contradiction].
Qed.

Lemma dict_set_keys_nodup d k v : NoDup (map fst d) -> NoDup (map fst (dict_set d k v)).
Proof.
  induction d as [|[k' v'] r IH]; cbn [dict_set map fst]; intros H.
  - constructor; [intros []|constructor].
  - inversion H as [|? ? Hk Hr]; subst. destruct (Z.eqb_spec k' k) as [->|Hne]; cbn [map fst].
    + constructor; assumption.
    + constructor; [|apply IH; exact Hr].
      intros Hin. apply in_map_iff in Hin as [[k2 v2] [E Hin]]. cbn [fst] in E. subst k2.
      apply dict_set_in in Hin as [Hin|Hin]; [congruence|].
      apply Hk. apply in_map_iff. exists (k', v2). split; [reflexivity|exact Hin].
Qed.

Lemma dict_set_all_keys_nodup kvs : forall d, NoDup (map fst d) -> NoDup (map fst (dict_set_all d kvs)).
Proof.
  induction kvs as [|[k v] kvs IH]; intros d H; cbn [dict_set_all fold_left]; [exact H|].
  apply IH. apply dict_set_keys_nodup. exact H.
Qed.

Lemma find_modnames_keys_nodup S mdl : NoDup (map fst (find_modnames S mdl)).
Proof.
  unfold find_modnames. rewrite find_fold. cbn [fst]. apply dict_set_all_keys_nodup. constructor.
Qed.

(* ---- the C09 selection theorems ---------------------------------------------------- *)
(* nothing extra: every registered (index, name) is one the property demands *)
Theorem selection_sound S body d :
  select S body = Ok d -> forall p, In p d -> In p (wanted S body).
Proof.
  intros Hs p Hp. destruct (no_bare_relative body) eqn:Hb.
  - rewrite select_eq in Hs by exact Hb. inversion Hs; subst.
    apply dict_set_all_in in Hp as [Hp|[]]. exact Hp.
  - unfold select, get_imports in Hs. rewrite get_imports_from_bare in Hs by exact Hb. discriminate.
Qed.

(* exactness when no import statement binds two selected names *)
Theorem selection_exact_partial S body :
  no_bare_relative body = true ->
  NoDup (map fst (wanted S body)) ->
  select S body = Ok (wanted S body).
Proof.
  intros Hb Hnd. rewrite select_eq by exact Hb. f_equal.
  apply (dict_set_all_fresh (wanted S body) [] Hnd). intros k _ [].
Qed.

(* the full statement is false: two selected names in one statement share the key *)
Definition refute_body : list stmt :=
  [ImportFrom (Some "pkg") [("mod_a", None); ("mod_b", None)] 0 1].

Theorem same_statement_refuted :
  exists S body d p,
    no_bare_relative body = true /\ select S body = Ok d /\ In p (wanted S body) /\ ~ In p d.
Proof.
  exists ["pkg"], refute_body, [(0, "mod_b")], (0, "mod_a").
  split; [reflexivity|]. split; [vm_compute; reflexivity|]. split.
  - vm_compute. left. reflexivity.
  - intros [H|[]]. discriminate.
Qed.

Example selection_partial_nonvacuous :
  let body := [ImportFrom (Some "pkg") [("mod_a", None)] 0 1;
               Import [("pkg.sub.m", Some "z"); ("other", None)] 2;
               ImportFrom (Some "pkgx") [("mod_a", Some "q")] 0 3] in
  no_bare_relative body = true /\ NoDup (map fst (wanted ["pkg"; "pkg.sub.m"] body))
  /\ wanted ["pkg"; "pkg.sub.m"] body = [(0, "mod_a"); (1, "z")].
Proof.
  cbn zeta. split; [reflexivity|]. split; [|vm_compute; reflexivity].
  vm_compute. repeat constructor; cbn; intuition discriminate.
Qed.

(* ---- whole dotted names ------------------------------------------------------------ *)
Theorem matches_iff S n : matches S n = true <-> In n S \/ In (parent n) S.
Proof. unfold matches. rewrite orb_true_iff, !str_in_In. tauto. Qed.

Lemma in_first_by_name seen l m : In m (first_by_name seen l) -> In m l.
Proof.
  revert seen. induction l as [|a l IH]; intros seen; cbn [first_by_name]; [tauto|].
  destruct (str_in (i_name a) seen); cbn [In]; intros H; [right; eapply IH; exact H|].
  destruct H as [H|H]; [left; exact H|right; eapply IH; exact H].
Qed.

(* a name is registered only if it, or its parent package, is literally in the selection *)
Theorem no_prefix_confusion S body d k nm :
  select S body = Ok d -> In (k, nm) d ->
  exists m, In m (all_bindings body) /\ i_idx m = k /\ reg_name m = nm
            /\ (In (i_name m) S \/ In (parent (i_name m)) S).
Proof.
  intros Hs Hin. apply (selection_sound S body d Hs) in Hin. unfold wanted in Hin.
  apply in_map_iff in Hin as [m [E Hm]]. apply filter_In in Hm as [Hm Hsel].
  exists m. inversion E; subst. repeat split; [eapply in_first_by_name; exact Hm|].
  apply matches_iff. exact Hsel.
Qed.

(* look-alike names do not match *)
Example prefix_examples :
  matches ["foo"] "foobar" = false /\ matches ["foo"] "foobar.x" = false
  /\ matches ["foo.bar"] "foo.barbaz" = false /\ matches ["foo.bar"] "foo.barbaz.q" = false
  /\ matches ["foobar"] "foo" = false /\ matches ["foo"] "foo.x" = true /\ matches ["foo"] "foo" = true
  /\ matches ["foo"] "foo.x.y" = false /\ matches ["a.foo"] "foo" = false.
Proof. vm_compute. repeat split. Qed.

(* executable comparisons for the case shards *)
Definition kv_eqb (a b : Z * string) : bool := Z.eqb (fst a) (fst b) && String.eqb (snd a) (snd b).
Definition dict_eqb (a b : dict) : bool := list_eqb kv_eqb a b.

Fixpoint insert_sorted (kv : Z * string) (l : dict) : dict :=
  match l with
  | [] => [kv]
  | x :: r => if (fst kv <? fst x) || ((fst kv =? fst x) && (String.ltb (snd kv) (snd x))) then kv :: l
              else x :: insert_sorted kv r
  end.
Definition sort_dict (d : dict) : dict := fold_right insert_sorted [] d.

(* set equality of two (index, name) lists *)
Definition kvs_subset (a b : dict) : bool := forallb (fun p => existsb (kv_eqb p) b) a.
Definition kvs_seteq (a b : dict) : bool := kvs_subset a b && kvs_subset b a.
