(* Select: which top-level imports of the script get registration statements.
   Statement-by-statement model of
     ProfmodExtractor._ast_get_imports_from_tree     (profmod_extractor.py)
     ProfmodExtractor._find_modnames_in_tree_imports (profmod_extractor.py)
   (the same two functions are regenerated from the source into Gen/Select.v by
   the translator; Ast/SelectGen.v proves the two readings equal), the
   specification [wanted] read off property C09, and the theorems relating them. *)
From LP Require Import Prelude.Py Prelude.PyLemmas Ast.AstLite Ast.AuxStr.
From LP Require Export Ast.SelectBase.

(* ---- _ast_get_imports_from_tree ------------------------------------------------- *)
Definition gi_state := (list imp * list string)%type.   (* module_dict_list, modname_list *)

Definition add_entry (st : gi_state) (modname : string) (al : option string) (idx : Z) : gi_state :=
  if str_in modname (snd st) then st
  else (fst st ++ [Build_imp modname al idx], snd st ++ [modname]).

Definition add_import (idx : Z) (st : gi_state) (a : alias) : gi_state :=
  add_entry st (fst a) (snd a) idx.

Definition is_star (a : alias) : bool := String.eqb (fst a) "*".

(* `from foo import *` binds no single name: skipped *)
Definition add_from (idx : Z) (m : string) (st : gi_state) (a : alias) : gi_state :=
  if is_star a then st
  else add_entry st (m ++ "." ++ fst a) (Some (str_or (snd a) (fst a))) idx.

Definition future_module (m : string) : bool := String.eqb m "__future__".

(* `from . import x` (module None) is skipped: nothing to match against absolute names;
   `from __future__ import ...` is skipped: nothing to profile, nothing may follow it *)
Fixpoint get_imports_from (idx : Z) (body : list stmt) (st : gi_state) : gi_state :=
  match body with
  | [] => st
  | Import ns _ :: r => get_imports_from (idx + 1) r (fold_left (add_import idx) ns st)
  | ImportFrom (Some m) ns _ _ :: r =>
      if future_module m then get_imports_from (idx + 1) r st
      else get_imports_from (idx + 1) r (fold_left (add_from idx m) ns st)
  | _ :: r => get_imports_from (idx + 1) r st
  end.

Definition get_imports (body : list stmt) : list imp := fst (get_imports_from 0 body ([], [])).

(* ---- _find_modnames_in_tree_imports --------------------------------------------- *)
Definition matches (S : list string) (n : string) : bool := str_in n S || str_in (parent n) S.

Definition reg_name (m : imp) : string := str_or (i_alias m) (i_name m).

Definition fm_state := (dict * list string)%type.   (* modnames_found_in_tree, modname_added_list *)

Definition find_step (S : list string) (st : fm_state) (m : imp) : fm_state :=
  if str_in (i_name m) (snd st) then st
  else if negb (str_in (i_name m) S) && negb (str_in (parent (i_name m)) S) then st
  else (dict_add (fst st) (i_idx m) (reg_name m), snd st ++ [i_name m]).

Definition find_modnames (S : list string) (mdl : list imp) : dict :=
  fst (fold_left (find_step S) mdl ([], [])).

(* ProfmodExtractor.run(), given the resolved selection S (modnames_to_profile) *)
Definition select (S : list string) (body : list stmt) : dict := find_modnames S (get_imports body).

(* ---- specification (property C09, second sentence) ------------------------------ *)
(* every single name bound by a top-level import statement that can be profiled (not a star,
   not a __future__ feature, not a bare relative import), with the index of its statement *)
Definition binds_of_stmt (idx : Z) (s : stmt) : list imp :=
  match s with
  | Import ns _ => map (fun a => Build_imp (fst a) (snd a) idx) ns
  | ImportFrom (Some m) ns _ _ =>
      if future_module m then []
      else map (fun a : alias => Build_imp (m ++ "." ++ fst a) (Some (str_or (snd a) (fst a))) idx)
               (filter (fun a => negb (is_star a)) ns)
  | _ => []
  end.

Fixpoint all_bindings_from (idx : Z) (body : list stmt) : list imp :=
  match body with
  | [] => []
  | s :: r => binds_of_stmt idx s ++ all_bindings_from (idx + 1) r
  end.
Definition all_bindings (body : list stmt) : list imp := all_bindings_from 0 body.

(* the first binding of every real name (registering a module twice adds nothing) *)
Fixpoint first_by_name (seen : list string) (l : list imp) : list imp :=
  match l with
  | [] => []
  | m :: r => if str_in (i_name m) seen then first_by_name seen r
              else m :: first_by_name (seen ++ [i_name m]) r
  end.

Definition selected (S : list string) (m : imp) : bool := matches S (i_name m).

Definition kv_of (m : imp) : Z * string := (i_idx m, reg_name m).

(* (statement index, name handed to the registration call) the property demands:
   the alias of b for every first top-level binding b whose real name, or the parent
   of whose real name, is in the selection - in source order *)
Definition wanted (S : list string) (body : list stmt) : list (Z * string) :=
  map kv_of (filter (selected S) (first_by_name [] (all_bindings body))).

(* ---- get_imports computes the first bindings ------------------------------------ *)
Lemma first_by_name_app seen l1 l2 :
  first_by_name seen (l1 ++ l2)
  = first_by_name seen l1 ++ first_by_name (seen ++ map i_name (first_by_name seen l1)) l2.
Proof.
  revert seen. induction l1 as [|m l1 IH]; intros seen; cbn [app first_by_name map].
  - rewrite app_nil_r. reflexivity.
  - destruct (str_in (i_name m) seen); [apply IH|].
    cbn [app map]. rewrite IH. rewrite <- app_assoc. reflexivity.
Qed.

(* a loop that adds one entry per element passing [keep] *)
Lemma fold_entries {A} (keep : A -> bool) (mk : A -> imp) (step : gi_state -> A -> gi_state) :
  (forall st a, step st a = if keep a then add_entry st (i_name (mk a)) (i_alias (mk a)) (i_idx (mk a)) else st) ->
  forall ns mdl names,
    fold_left step ns (mdl, names)
    = (mdl ++ first_by_name names (map mk (filter keep ns)),
       names ++ map i_name (first_by_name names (map mk (filter keep ns)))).
Proof.
  intros Hstep. induction ns as [|a ns IH]; intros mdl names; cbn [fold_left filter].
  - cbn. rewrite !app_nil_r. reflexivity.
  - rewrite Hstep. destruct (keep a) eqn:K; [|apply IH].
    cbn [map first_by_name]. unfold add_entry. cbn [fst snd].
    destruct (str_in (i_name (mk a)) names) eqn:E.
    + apply IH.
    + rewrite IH. cbn [map]. rewrite <- !app_assoc. cbn [app].
      destruct (mk a) as [n al ix]; reflexivity.
Qed.

Lemma get_imports_from_spec body : forall idx mdl names,
  get_imports_from idx body (mdl, names)
  = (mdl ++ first_by_name names (all_bindings_from idx body),
     names ++ map i_name (first_by_name names (all_bindings_from idx body))).
Proof.
  induction body as [|s r IH]; intros idx mdl names.
  - cbn. rewrite !app_nil_r. reflexivity.
  - cbn [all_bindings_from]. rewrite first_by_name_app.
    destruct s as [a n ds b l|n i b l|ns l|m ns lv l|i bs l|i l|n loc];
      cbn [get_imports_from binds_of_stmt first_by_name app map];
      try (rewrite IH; rewrite ?app_nil_r; reflexivity).
    + (* Import *)
      rewrite (fold_entries (fun _ => true) (fun a : alias => Build_imp (fst a) (snd a) idx) (add_import idx))
        by (intros st a; reflexivity).
      replace (filter (fun _ : alias => true) ns) with ns
        by (clear; induction ns as [|x ns IHn]; [reflexivity|cbn; rewrite <- IHn; reflexivity]).
      rewrite IH. rewrite map_app, !app_assoc. reflexivity.
    + (* ImportFrom *)
      destruct m as [m|]; [destruct (future_module m)|].
      * cbn [first_by_name app map]. rewrite IH, ?app_nil_r. reflexivity.
      * rewrite (fold_entries (fun a => negb (is_star a))
                              (fun a : alias => Build_imp (m ++ "." ++ fst a) (Some (str_or (snd a) (fst a))) idx)
                              (add_from idx m))
          by (intros st a; unfold add_from; destruct (is_star a); reflexivity).
        rewrite IH. rewrite map_app, !app_assoc. reflexivity.
      * cbn [first_by_name app map]. rewrite IH, ?app_nil_r. reflexivity.
Qed.

Theorem get_imports_spec body : get_imports body = first_by_name [] (all_bindings body).
Proof. unfold get_imports, all_bindings. rewrite get_imports_from_spec. reflexivity. Qed.

(* ---- names of first_by_name are distinct, so find's dedup never fires on them ---- *)
Lemma first_by_name_notin seen l x :
  str_in x seen = true -> ~ In x (map i_name (first_by_name seen l)).
Proof.
  revert seen. induction l as [|m l IH]; intros seen Hx; cbn [first_by_name map]; [tauto|].
  destruct (str_in (i_name m) seen) eqn:E; [apply IH; exact Hx|].
  cbn [map In]. intros [H|H].
  - subst. congruence.
  - revert H. apply IH. rewrite str_in_app, Hx. reflexivity.
Qed.

Lemma first_by_name_nodup seen l : NoDup (map i_name (first_by_name seen l)).
Proof.
  revert seen. induction l as [|m l IH]; intros seen; cbn [first_by_name map]; [constructor|].
  destruct (str_in (i_name m) seen) eqn:E; [apply IH|].
  cbn [map]. constructor; [|apply IH].
  apply first_by_name_notin. rewrite str_in_app. cbn [str_in existsb].
  rewrite String.eqb_refl, orb_true_r. reflexivity.
Qed.

Lemma first_by_name_id seen l :
  NoDup (map i_name l) -> (forall x, In x (map i_name l) -> str_in x seen = false) ->
  first_by_name seen l = l.
Proof.
  revert seen. induction l as [|m l IH]; intros seen Hnd Hd; cbn [first_by_name]; [reflexivity|].
  cbn [map] in Hnd, Hd. inversion Hnd as [|? ? Hm Hnd']; subst.
  rewrite (Hd (i_name m)) by (left; reflexivity). f_equal. apply IH; [exact Hnd'|].
  intros x Hx. rewrite str_in_app, (Hd x) by (right; exact Hx). cbn [str_in existsb orb].
  destruct (String.eqb_spec x (i_name m)) as [->|]; [contradiction|reflexivity].
Qed.

Lemma nodup_map_filter {A B} (f : A -> B) p (l : list A) :
  NoDup (map f l) -> NoDup (map f (filter p l)).
Proof.
  induction l as [|a l IH]; cbn [map filter]; intros H; [constructor|].
  inversion H as [|? ? Ha Hl]; subst. destruct (p a); [|apply IH; exact Hl].
  cbn [map]. constructor; [|apply IH; exact Hl].
  intros Hin. apply Ha. rewrite in_map_iff in *. destruct Hin as [m [E Hm]].
  apply filter_In in Hm as [Hm _]. exists m; split; assumption.
Qed.

(* ---- find_modnames as dict_add over the selected first bindings ------------------- *)
Definition dict_add_all (d : dict) (kvs : list (Z * string)) : dict :=
  fold_left (fun d kv => dict_add d (fst kv) (snd kv)) kvs d.

Lemma find_fold S mdl : forall d added,
  fold_left (find_step S) mdl (d, added)
  = (dict_add_all d (map kv_of (first_by_name added (filter (selected S) mdl))),
     added ++ map i_name (first_by_name added (filter (selected S) mdl))).
Proof.
  induction mdl as [|m mdl IH]; intros d added; cbn [fold_left filter].
  - cbn. rewrite app_nil_r. reflexivity.
  - assert (Hsel : negb (str_in (i_name m) S) && negb (str_in (parent (i_name m)) S) = negb (selected S m)).
    { unfold selected, matches. rewrite negb_orb. reflexivity. }
    replace (find_step S (d, added) m)
      with (if str_in (i_name m) added then (d, added)
            else if negb (selected S m) then (d, added)
                 else (dict_add d (i_idx m) (reg_name m), added ++ [i_name m]))
      by (unfold find_step; cbn [fst snd]; rewrite Hsel; reflexivity).
    destruct (selected S m) eqn:Es; cbn [negb].
    + cbn [first_by_name]. destruct (str_in (i_name m) added) eqn:Ea.
      * apply IH.
      * rewrite IH. cbn [map dict_add_all fold_left fst snd kv_of].
        rewrite <- app_assoc. reflexivity.
    + destruct (str_in (i_name m) added); apply IH.
Qed.

Lemma find_modnames_eq S mdl :
  NoDup (map i_name mdl) ->
  find_modnames S mdl = dict_add_all [] (map kv_of (filter (selected S) mdl)).
Proof.
  intros Hnd. unfold find_modnames. rewrite find_fold. cbn [fst].
  rewrite first_by_name_id; [reflexivity|apply nodup_map_filter; exact Hnd|reflexivity].
Qed.

Theorem select_eq S body : select S body = dict_add_all [] (wanted S body).
Proof.
  unfold select. rewrite get_imports_spec.
  rewrite find_modnames_eq by apply first_by_name_nodup. reflexivity.
Qed.

(* ---- dict_add facts ----------------------------------------------------------------- *)
Lemma dict_names_add d k v k' :
  dict_names (dict_add d k v) k' = dict_names d k' ++ (if Z.eqb k k' then [v] else []).
Proof.
  unfold dict_names. induction d as [|[k0 vs] r IH]; cbn [dict_add dict_get].
  - destruct (Z.eqb k k'); reflexivity.
  - destruct (Z.eqb_spec k0 k) as [->|Hne]; cbn [dict_get].
    + destruct (Z.eqb k k'); [reflexivity|]. rewrite app_nil_r. reflexivity.
    + destruct (Z.eqb_spec k0 k') as [->|Hne'].
      * destruct (Z.eqb_spec k k') as [->|_]; [congruence|]. rewrite app_nil_r. reflexivity.
      * exact IH.
Qed.

Lemma dict_names_add_all kvs : forall d k,
  dict_names (dict_add_all d kvs) k
  = dict_names d k ++ map snd (filter (fun kv => Z.eqb (fst kv) k) kvs).
Proof.
  induction kvs as [|[k0 v] kvs IH]; intros d k; cbn [dict_add_all fold_left filter fst snd].
  - rewrite app_nil_r. reflexivity.
  - change (fold_left _ kvs (dict_add d k0 v)) with (dict_add_all (dict_add d k0 v) kvs).
    rewrite IH, dict_names_add. destruct (Z.eqb k0 k); cbn [map snd];
      rewrite <- app_assoc; reflexivity.
Qed.

Lemma dict_items_add d k v p : In p (dict_items (dict_add d k v)) <-> p = (k, v) \/ In p (dict_items d).
Proof.
  unfold dict_items. induction d as [|[k0 vs] r IH]; cbn [dict_add flat_map fst snd map].
  - rewrite app_nil_r. cbn [In]. intuition.
  - destruct (Z.eqb_spec k0 k) as [->|Hne]; cbn [flat_map fst snd].
    + rewrite map_app, !in_app_iff. cbn [map In]. intuition.
    + rewrite !in_app_iff, IH. intuition.
Qed.

Lemma dict_items_add_all kvs : forall d p,
  In p (dict_items (dict_add_all d kvs)) <-> In p kvs \/ In p (dict_items d).
Proof.
  induction kvs as [|[k v] kvs IH]; intros d p; cbn [dict_add_all fold_left fst snd In]; [tauto|].
  change (fold_left _ kvs (dict_add d k v)) with (dict_add_all (dict_add d k v) kvs).
  rewrite IH, dict_items_add. intuition.
Qed.

Lemma dict_add_keys d k v x : In x (map fst (dict_add d k v)) <-> x = k \/ In x (map fst d).
Proof.
  induction d as [|[k0 vs] r IH]; cbn [dict_add map fst In]; [intuition|].
  destruct (Z.eqb_spec k0 k) as [->|Hne]; cbn [map fst In]; [intuition|]. rewrite IH. intuition.
Qed.

Lemma dict_add_keys_nodup d k v : NoDup (map fst d) -> NoDup (map fst (dict_add d k v)).
Proof.
  induction d as [|[k0 vs] r IH]; cbn [dict_add map fst]; intros H.
  - constructor; [intros []|constructor].
  - inversion H as [|? ? Hk Hr]; subst. destruct (Z.eqb_spec k0 k) as [->|Hne]; cbn [map fst].
    + constructor; assumption.
    + constructor; [|apply IH; exact Hr]. rewrite dict_add_keys. intros [E|Hin]; [congruence|contradiction].
Qed.

Lemma dict_add_all_keys_nodup kvs : forall d, NoDup (map fst d) -> NoDup (map fst (dict_add_all d kvs)).
Proof.
  induction kvs as [|[k v] kvs IH]; intros d H; cbn [dict_add_all fold_left]; [exact H|].
  apply IH. apply dict_add_keys_nodup. exact H.
Qed.

Lemma select_keys_nodup S body : NoDup (map fst (select S body)).
Proof. rewrite select_eq. apply dict_add_all_keys_nodup. constructor. Qed.

Lemma dict_get_names d k vs : dict_get d k = Some vs -> dict_names d k = vs.
Proof. unfold dict_names. intros ->. reflexivity. Qed.

Lemma dict_get_key d k vs : dict_get d k = Some vs -> In k (map fst d).
Proof.
  induction d as [|[k0 v0] r IH]; cbn [dict_get map fst In]; [discriminate|].
  destruct (Z.eqb_spec k0 k) as [->|]; [left; reflexivity|]. intros H. right. apply IH. exact H.
Qed.

Lemma dict_names_items d k y : In y (dict_names d k) -> In (k, y) (dict_items d).
Proof.
  unfold dict_names, dict_items. induction d as [|[k0 vs] r IH]; cbn [dict_get flat_map fst snd]; [tauto|].
  destruct (Z.eqb_spec k0 k) as [->|Hne]; intros H; apply in_app_iff.
  - left. apply in_map. exact H.
  - right. apply IH. exact H.
Qed.

Lemma dict_items_names d k y : NoDup (map fst d) -> In (k, y) (dict_items d) -> In y (dict_names d k).
Proof.
  unfold dict_names, dict_items. induction d as [|[k0 vs] r IH]; cbn [dict_get flat_map fst snd map]; [tauto|].
  intros Hnd H. inversion Hnd as [|? ? Hk Hr]; subst. apply in_app_iff in H as [H|H].
  - apply in_map_iff in H as [v [E Hv]]. inversion E; subst. rewrite Z.eqb_refl. exact Hv.
  - destruct (Z.eqb_spec k0 k) as [->|Hne]; [|apply IH; assumption].
    exfalso. apply Hk. apply in_flat_map in H as [[k1 vs1] [Hin Hm]]. cbn [fst snd] in Hm.
    apply in_map_iff in Hm as [v [E _]]. inversion E; subst. apply in_map_iff. exists (k, vs1). split; [reflexivity|exact Hin].
Qed.

(* ---- the C09 selection theorems ---------------------------------------------------- *)
(* exactness: the (index, name) pairs that get a registration are exactly the demanded ones *)
Theorem selection_exact S body p : In p (dict_items (select S body)) <-> In p (wanted S body).
Proof. rewrite select_eq, dict_items_add_all. cbn. tauto. Qed.

(* ... and for every import statement they are registered in source order *)
Theorem selection_order S body k :
  dict_names (select S body) k = map snd (filter (fun kv => Z.eqb (fst kv) k) (wanted S body)).
Proof. rewrite select_eq, dict_names_add_all. reflexivity. Qed.

Example selection_example :
  let body := [ImportFrom (Some "pkg") [("mod_a", None); ("*", None); ("mod_b", Some "b")] 0 1;
               Import [("pkg.sub.m", Some "z"); ("other", None); ("pkg.q", None)] 2;
               ImportFrom None [("sib", None)] 1 3;
               ImportFrom (Some "pkgx") [("mod_a", Some "q")] 0 4] in
  select ["pkg"; "pkg.sub.m"] body = [(0, ["mod_a"; "b"]); (1, ["z"; "pkg.q"])]
  /\ wanted ["pkg"; "pkg.sub.m"] body = [(0, "mod_a"); (0, "b"); (1, "z"); (1, "pkg.q")].
Proof. cbn zeta. split; vm_compute; reflexivity. Qed.

(* ---- whole dotted names ------------------------------------------------------------ *)
Theorem matches_iff S n : matches S n = true <-> In n S \/ In (parent n) S.
Proof. unfold matches. rewrite orb_true_iff, !str_in_In. tauto. Qed.

Lemma in_first_by_name seen l m : In m (first_by_name seen l) -> In m l.
Proof.
  revert seen. induction l as [|a l IH]; intros seen; cbn [first_by_name]; [tauto|].
  destruct (str_in (i_name a) seen); cbn [In]; intros H; [right; eapply IH; exact H|].
  destruct H as [H|H]; [left; exact H|right; eapply IH; exact H].
Qed.

(* a name is registered only if it, or its parent package, is literally in the selection *)
Theorem no_prefix_confusion S body k nm :
  In (k, nm) (dict_items (select S body)) ->
  exists m, In m (all_bindings body) /\ i_idx m = k /\ reg_name m = nm
            /\ (In (i_name m) S \/ In (parent (i_name m)) S).
Proof.
  intros Hin. apply selection_exact in Hin. unfold wanted in Hin.
  apply in_map_iff in Hin as [m [E Hm]]. apply filter_In in Hm as [Hm Hsel].
  exists m. inversion E; subst. repeat split; [eapply in_first_by_name; exact Hm|].
  apply matches_iff. exact Hsel.
Qed.

(* look-alike names do not match *)
Example prefix_examples :
  matches ["foo"] "foobar" = false /\ matches ["foo"] "foobar.x" = false
  /\ matches ["foo.bar"] "foo.barbaz" = false /\ matches ["foo.bar"] "foo.barbaz.q" = false
  /\ matches ["foobar"] "foo" = false /\ matches ["foo"] "foo.x" = true /\ matches ["foo"] "foo" = true
  /\ matches ["foo"] "foo.x.y" = false /\ matches ["a.foo"] "foo" = false.
Proof. vm_compute. repeat split. Qed.

(* executable comparisons for the case shards *)
Definition kv_eqb (a b : Z * string) : bool := Z.eqb (fst a) (fst b) && String.eqb (snd a) (snd b).
Definition dict_eqb (a b : dict) : bool :=
  list_eqb (fun x y => Z.eqb (fst x) (fst y) && list_eqb String.eqb (snd x) (snd y)) a b.

(* set equality of two (index, name) lists *)
Definition kvs_subset (a b : list (Z * string)) : bool := forallb (fun p => existsb (kv_eqb p) b) a.
Definition kvs_seteq (a b : list (Z * string)) : bool := kvs_subset a b && kvs_subset b a.
