(* AstLite: the part of a Python module's syntax tree that line_profiler's
   auto-profiling transformers look at (ast_tree_profiler.py,
   ast_profile_transformer.py, profmod_extractor.py, run_module.py).

   Everything the transformers never inspect is collapsed into an interned
   identifier ([Other id], the [id] of a compound statement or a class header,
   [DOther id] for a decorator that is not a bare name); the harness' converter
   (harness/drivers/astconv.py) interns [ast.dump] of the collapsed part, so two
   converted trees are equal iff the Python trees are equal up to
   col_offset/end positions. *)
From LP Require Import Prelude.Py.

(* a decorator: [@name] or anything else *)
Inductive deco := DName (s : string) | DOther (id : Z).

(* ast.alias: (name, asname) *)
Definition alias := (string * option string)%type.

Inductive stmt :=
| FuncDef (async : bool) (name : string) (decos : list deco) (body : list stmt) (line : Z)
| ClassDef (name : string) (id : Z) (body : list stmt) (line : Z)
| Import (names : list alias) (line : Z)
| ImportFrom (module : option string) (names : list alias) (level : Z) (line : Z)
  (* if / for / while / try / with / match (and async forms): the nested statement
     lists in the order generic_visit reaches them, each with the line number of the
     node that owns the list (the statement itself, an except handler, ...) *)
| Compound (id : Z) (bodies : list (Z * list stmt)) (line : Z)
| Other (id : Z) (line : Z)
  (* Expr(profile.add_imported_function_or_module(<dotted name>)); an inserted node has
     no location until ast.fix_missing_locations runs *)
| ProfCall (name : string) (loc : option Z).

Definition block := list stmt.

(* ---- induction over the nested lists ------------------------------------------ *)
Section StmtInd.
  Variable P : stmt -> Prop.
  Variable Q : list stmt -> Prop.
  Variable R : list (Z * list stmt) -> Prop.
  Hypothesis Qnil : Q [].
  Hypothesis Qcons : forall s r, P s -> Q r -> Q (s :: r).
  Hypothesis Rnil : R [].
  Hypothesis Rcons : forall l b r, Q b -> R r -> R ((l, b) :: r).
  Hypothesis Pfunc : forall a n ds b l, Q b -> P (FuncDef a n ds b l).
  Hypothesis Pclass : forall n i b l, Q b -> P (ClassDef n i b l).
  Hypothesis Pimport : forall ns l, P (Import ns l).
  Hypothesis Pfrom : forall m ns lv l, P (ImportFrom m ns lv l).
  Hypothesis Pcomp : forall i bs l, R bs -> P (Compound i bs l).
  Hypothesis Pother : forall i l, P (Other i l).
  Hypothesis Pprof : forall n loc, P (ProfCall n loc).

  Fixpoint stmt_ind' (s : stmt) : P s :=
    let body_ind := fix go (b : list stmt) : Q b :=
      match b with [] => Qnil | s :: r => Qcons s r (stmt_ind' s) (go r) end in
    match s with
    | FuncDef a n ds b l => Pfunc a n ds b l (body_ind b)
    | ClassDef n i b l => Pclass n i b l (body_ind b)
    | Import ns l => Pimport ns l
    | ImportFrom m ns lv l => Pfrom m ns lv l
    | Compound i bs l =>
        Pcomp i bs l
          ((fix goR (bs : list (Z * list stmt)) : R bs :=
              match bs with
              | [] => Rnil
              | (bl, b) :: r => Rcons bl b r (body_ind b) (goR r)
              end) bs)
    | Other i l => Pother i l
    | ProfCall n loc => Pprof n loc
    end.

  Fixpoint body_ind' (b : list stmt) : Q b :=
    match b with [] => Qnil | s :: r => Qcons s r (stmt_ind' s) (body_ind' r) end.

  Fixpoint bodies_ind' (bs : list (Z * list stmt)) : R bs :=
    match bs with [] => Rnil | (bl, b) :: r => Rcons bl b r (body_ind' b) (bodies_ind' r) end.
End StmtInd.

(* ---- state-threading map: visit a list left to right, concatenating results ---- *)
Section SMap.
  Context {A B St : Type}.
  Variable f : St -> A -> list B * St.
  Fixpoint smap (st : St) (l : list A) : list B * St :=
    match l with
    | [] => ([], st)
    | a :: r =>
        let '(b, st1) := f st a in
        let '(r', st2) := smap st1 r in
        (b ++ r', st2)
    end.
End SMap.

(* ---- decidable equality (used by the case shards), proved sound ---------------- *)
Definition deco_eqb (a b : deco) : bool :=
  match a, b with
  | DName x, DName y => String.eqb x y
  | DOther x, DOther y => Z.eqb x y
  | _, _ => false
  end.

Definition ostr_eqb := opt_eqb String.eqb.
Definition oz_eqb := opt_eqb Z.eqb.
Definition alias_eqb (a b : alias) : bool := String.eqb (fst a) (fst b) && ostr_eqb (snd a) (snd b).

Fixpoint stmt_eqb (a b : stmt) {struct a} : bool :=
  let body_eqb := fix go (x y : list stmt) {struct x} : bool :=
    match x, y with
    | [], [] => true
    | s :: x', t :: y' => stmt_eqb s t && go x' y'
    | _, _ => false
    end in
  match a, b with
  | FuncDef a1 n1 d1 b1 l1, FuncDef a2 n2 d2 b2 l2 =>
      Bool.eqb a1 a2 && String.eqb n1 n2 && list_eqb deco_eqb d1 d2 && body_eqb b1 b2 && Z.eqb l1 l2
  | ClassDef n1 i1 b1 l1, ClassDef n2 i2 b2 l2 =>
      String.eqb n1 n2 && Z.eqb i1 i2 && body_eqb b1 b2 && Z.eqb l1 l2
  | Import n1 l1, Import n2 l2 => list_eqb alias_eqb n1 n2 && Z.eqb l1 l2
  | ImportFrom m1 n1 v1 l1, ImportFrom m2 n2 v2 l2 =>
      ostr_eqb m1 m2 && list_eqb alias_eqb n1 n2 && Z.eqb v1 v2 && Z.eqb l1 l2
  | Compound i1 bs1 l1, Compound i2 bs2 l2 =>
      Z.eqb i1 i2
      && (fix goR (x y : list (Z * list stmt)) {struct x} : bool :=
            match x, y with
            | [], [] => true
            | (l, b) :: x', (l', b') :: y' => Z.eqb l l' && body_eqb b b' && goR x' y'
            | _, _ => false
            end) bs1 bs2
      && Z.eqb l1 l2
  | Other i1 l1, Other i2 l2 => Z.eqb i1 i2 && Z.eqb l1 l2
  | ProfCall n1 o1, ProfCall n2 o2 => String.eqb n1 n2 && oz_eqb o1 o2
  | _, _ => false
  end.

Fixpoint body_eqb (x y : list stmt) {struct x} : bool :=
  match x, y with
  | [], [] => true
  | s :: x', t :: y' => stmt_eqb s t && body_eqb x' y'
  | _, _ => false
  end.

Fixpoint bodies_eqb (x y : list (Z * list stmt)) {struct x} : bool :=
  match x, y with
  | [], [] => true
  | (l, b) :: x', (l', b') :: y' => Z.eqb l l' && body_eqb b b' && bodies_eqb x' y'
  | _, _ => false
  end.

Lemma list_eqb_sound {A} (eqb : A -> A -> bool) :
  (forall a b, eqb a b = true -> a = b) -> forall x y, list_eqb eqb x y = true -> x = y.
Proof.
  intros H x; induction x as [|a x IH]; intros [|b y] E; cbn [list_eqb] in E; try discriminate; [reflexivity|].
  apply andb_prop in E as [E1 E2]. f_equal; [apply H; exact E1|apply IH; exact E2].
Qed.

Lemma opt_eqb_sound {A} (eqb : A -> A -> bool) :
  (forall a b, eqb a b = true -> a = b) -> forall x y, opt_eqb eqb x y = true -> x = y.
Proof.
  intros H [a|] [b|] E; cbn [opt_eqb] in E; try discriminate; [f_equal; apply H; exact E|reflexivity].
Qed.

Lemma str_eqb_sound a b : String.eqb a b = true -> a = b.
Proof. apply String.eqb_eq. Qed.
Lemma z_eqb_sound a b : Z.eqb a b = true -> a = b.
Proof. apply Z.eqb_eq. Qed.

Lemma deco_eqb_sound a b : deco_eqb a b = true -> a = b.
Proof.
  destruct a, b; cbn [deco_eqb]; intros E; try discriminate; f_equal;
    [apply String.eqb_eq|apply Z.eqb_eq]; exact E.
Qed.

Lemma alias_eqb_sound a b : alias_eqb a b = true -> a = b.
Proof.
  destruct a as [a1 a2], b as [b1 b2]; unfold alias_eqb; cbn [fst snd]. intros E.
  apply andb_prop in E as [E1 E2]. apply String.eqb_eq in E1.
  apply (opt_eqb_sound _ str_eqb_sound) in E2. congruence.
Qed.

Lemma stmt_eqb_sound : forall a b, stmt_eqb a b = true -> a = b.
Proof.
  intros a.
  apply (stmt_ind' (fun a => forall b, stmt_eqb a b = true -> a = b)
                   (fun x => forall y, body_eqb x y = true -> x = y)
                   (fun x => forall y, bodies_eqb x y = true -> x = y)).
  - intros [|t y] E; cbn [body_eqb] in E; [reflexivity|discriminate].
  - intros s r Hs Hr [|t y] E; cbn [body_eqb] in E; [discriminate|].
    apply andb_prop in E as [E1 E2]. f_equal; [apply Hs; exact E1|apply Hr; exact E2].
  - intros [|t y] E; cbn [bodies_eqb] in E; [reflexivity|discriminate].
  - intros l b r Hb Hr [|[l' b'] y] E; cbn [bodies_eqb] in E; [discriminate|].
    apply andb_prop in E as [E E3]. apply andb_prop in E as [E1 E2].
    apply Z.eqb_eq in E1. f_equal; [f_equal; [exact E1|apply Hb; exact E2]|apply Hr; exact E3].
  - intros a1 n1 d1 b1 l1 Hb b E. destruct b; try discriminate E.
    change (Bool.eqb a1 async && String.eqb n1 name && list_eqb deco_eqb d1 decos
            && body_eqb b1 body && Z.eqb l1 line = true) in E.
    repeat (apply andb_prop in E as [E ?]).
    apply Bool.eqb_prop in E. apply String.eqb_eq in H2.
    apply (list_eqb_sound _ deco_eqb_sound) in H1. apply Hb in H0. apply Z.eqb_eq in H.
    congruence.
  - intros n1 i1 b1 l1 Hb b E. destruct b; try discriminate E.
    change (String.eqb n1 name && Z.eqb i1 id && body_eqb b1 body && Z.eqb l1 line = true) in E.
    repeat (apply andb_prop in E as [E ?]).
    apply String.eqb_eq in E. apply Z.eqb_eq in H1. apply Hb in H0. apply Z.eqb_eq in H. congruence.
  - intros n1 l1 b E. destruct b; try discriminate E. cbn [stmt_eqb] in E.
    apply andb_prop in E as [E1 E2]. apply (list_eqb_sound _ alias_eqb_sound) in E1.
    apply Z.eqb_eq in E2. congruence.
  - intros m1 n1 v1 l1 b E. destruct b; try discriminate E. cbn [stmt_eqb] in E.
    repeat (apply andb_prop in E as [E ?]).
    apply (opt_eqb_sound _ str_eqb_sound) in E. apply (list_eqb_sound _ alias_eqb_sound) in H1.
    apply Z.eqb_eq in H0. apply Z.eqb_eq in H. congruence.
  - intros i1 bs1 l1 Hbs b E. destruct b; try discriminate E.
    change (Z.eqb i1 id && bodies_eqb bs1 bodies && Z.eqb l1 line = true) in E.
    repeat (apply andb_prop in E as [E ?]).
    apply Z.eqb_eq in E. apply Hbs in H0. apply Z.eqb_eq in H. congruence.
  - intros i1 l1 b E. destruct b; try discriminate E. cbn [stmt_eqb] in E.
    apply andb_prop in E as [E1 E2]. apply Z.eqb_eq in E1. apply Z.eqb_eq in E2. congruence.
  - intros n1 o1 b E. destruct b; try discriminate E. cbn [stmt_eqb] in E.
    apply andb_prop in E as [E1 E2]. apply String.eqb_eq in E1.
    apply (opt_eqb_sound _ z_eqb_sound) in E2. congruence.
Qed.

Lemma body_eqb_sound : forall x y, body_eqb x y = true -> x = y.
Proof.
  induction x as [|s x IH]; intros [|t y] E; cbn [body_eqb] in E; try discriminate; [reflexivity|].
  apply andb_prop in E as [E1 E2]. f_equal; [apply stmt_eqb_sound; exact E1|apply IH; exact E2].
Qed.

(* ---- observers ------------------------------------------------------------------ *)
Definition profile_name : string := "profile".

Definition is_profile (d : deco) : bool :=
  match d with DName s => String.eqb s profile_name | DOther _ => false end.
Definition has_profile (ds : list deco) : bool := existsb is_profile ds.

(* header of a function definition *)
Record fhead := { fh_async : bool; fh_name : string; fh_decos : list deco; fh_line : Z }.

(* every function definition at any depth, in source (pre-)order *)
Fixpoint funcs_stmt (s : stmt) : list fhead :=
  match s with
  | FuncDef a n ds b l => Build_fhead a n ds l :: flat_map funcs_stmt b
  | ClassDef _ _ b _ => flat_map funcs_stmt b
  | Compound _ bs _ => flat_map (fun p => flat_map funcs_stmt (snd p)) bs
  | _ => []
  end.
Definition funcs (b : list stmt) : list fhead := flat_map funcs_stmt b.

(* remove what auto-profiling adds: `profile` decorators and registration statements *)
Definition rm_profile (ds : list deco) : list deco := filter (fun d => negb (is_profile d)) ds.

Fixpoint erase_stmt (s : stmt) : list stmt :=
  match s with
  | FuncDef a n ds b l => [FuncDef a n (rm_profile ds) (flat_map erase_stmt b) l]
  | ClassDef n i b l => [ClassDef n i (flat_map erase_stmt b) l]
  | Compound i bs l => [Compound i (map (fun p => (fst p, flat_map erase_stmt (snd p))) bs) l]
  | ProfCall _ _ => []
  | _ => [s]
  end.
Definition erase (b : list stmt) : list stmt := flat_map erase_stmt b.

(* a tree that contains nothing auto-profiling could have added *)
Fixpoint clean_stmt (s : stmt) : bool :=
  match s with
  | FuncDef _ _ ds b _ => negb (has_profile ds) && forallb clean_stmt b
  | ClassDef _ _ b _ => forallb clean_stmt b
  | Compound _ bs _ => forallb (fun p => forallb clean_stmt (snd p)) bs
  | ProfCall _ _ => false
  | _ => true
  end.
Definition clean (b : list stmt) : bool := forallb clean_stmt b.

(* line numbers of all statements other than registration calls, in source order *)
Fixpoint lines_stmt (s : stmt) : list Z :=
  match s with
  | FuncDef _ _ _ b l => l :: flat_map lines_stmt b
  | ClassDef _ _ b l => l :: flat_map lines_stmt b
  | Import _ l => [l]
  | ImportFrom _ _ _ l => [l]
  | Compound _ bs l => l :: flat_map (fun p => fst p :: flat_map lines_stmt (snd p)) bs
  | Other _ l => [l]
  | ProfCall _ _ => []
  end.
Definition lines (b : list stmt) : list Z := flat_map lines_stmt b.

(* names handed to registration calls, at any depth, in source order *)
Fixpoint regs_stmt (s : stmt) : list string :=
  match s with
  | FuncDef _ _ _ b _ => flat_map regs_stmt b
  | ClassDef _ _ b _ => flat_map regs_stmt b
  | Compound _ bs _ => flat_map (fun p => flat_map regs_stmt (snd p)) bs
  | ProfCall n _ => [n]
  | _ => []
  end.
Definition regs (b : list stmt) : list string := flat_map regs_stmt b.

(* registration calls among the statements of one list (no descent) *)
Definition top_regs (b : list stmt) : list string :=
  flat_map (fun s => match s with ProfCall n _ => [n] | _ => [] end) b.

(* number of statements at any depth *)
Fixpoint size_stmt (s : stmt) : Z :=
  match s with
  | FuncDef _ _ _ b _ => 1 + fold_right (fun s a => size_stmt s + a) 0 b
  | ClassDef _ _ b _ => 1 + fold_right (fun s a => size_stmt s + a) 0 b
  | Compound _ bs _ => 1 + fold_right (fun p a => fold_right (fun s a => size_stmt s + a) 0 (snd p) + a) 0 bs
  | _ => 1
  end.
