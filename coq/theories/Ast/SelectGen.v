(* The functions regenerated from profmod_extractor.py (Gen/Select.v) are the
   hand-written reading of Ast/Select.v, so every theorem about [select],
   [get_imports], [find_modnames] is a theorem about the translated source.
   A source edit that changes behaviour breaks these proofs. *)
From LP Require Import Prelude.Py Ast.AstLite Ast.AuxStr Ast.SelectBase Ast.Select Gen.Select.

Lemma let_fst {A B C} (p : A * B) (k : A -> C) : (let (a, _) := p in k a) = k (fst p).
Proof. destruct p. reflexivity. Qed.

Lemma gen_find_modnames_eq S mdl : gen_find_modnames S mdl = Ok (find_modnames S mdl).
Proof.
  unfold gen_find_modnames, find_modnames, py_for_enum.
  rewrite (py_for_enum_from_ok (find_step S)).
  - exact (let_fst (fold_left (find_step S) mdl ([], [])) (fun a => Ok a)).
  - intros [d added] i m. unfold find_step. cbn [fst snd].
    change (py_in String.eqb (i_name m) added) with (str_in (i_name m) added).
    change (py_in String.eqb (i_name m) S) with (str_in (i_name m) S).
    change (py_in String.eqb (parent (i_name m)) S) with (str_in (parent (i_name m)) S).
    destruct (str_in (i_name m) added); [reflexivity|].
    destruct (negb (str_in (i_name m) S) && negb (str_in (parent (i_name m)) S)); reflexivity.
Qed.

Lemma app3_assoc (m x : string) : ((m ++ ".") ++ x = m ++ "." ++ x)%string.
Proof. induction m as [|c m IH]; cbn [append]; [reflexivity|]. rewrite IH. reflexivity. Qed.

(* the loop body of the translated _ast_get_imports_from_tree is taken from the
   generated definition itself (not copied), so the proof follows renamings *)
Theorem gen_get_imports_eq body : gen_get_imports body = Ok (get_imports body).
Proof.
  unfold gen_get_imports, get_imports, py_for_enum.
  match goal with
  | |- context [py_for_enum_from 0 body ([], []) ?F] =>
      assert (H : forall body idx (st : gi_state),
                 py_for_enum_from idx body st F = Ok (get_imports_from idx body st))
  end.
  { clear body. induction body as [|s r IH]; intros idx [mdl names]; [reflexivity|].
    cbn [py_for_enum_from get_imports_from].
    destruct s as [a n ds b l|n i b l|ns l|m ns lv l|i bs l|i l|n loc]; try (apply IH).
    - (* Import *)
      match goal with
      | |- context [py_for ns (mdl, names) ?G] =>
          replace (py_for ns (mdl, names) G) with (Ok (fold_left (add_import idx) ns (mdl, names)) : res gi_state)
      end.
      + rewrite (surjective_pairing (fold_left (add_import idx) ns (mdl, names))). apply IH.
      + symmetry. apply (py_for_ok (add_import idx)). intros [x y] a.
        unfold add_import, add_entry, py_in, str_in. cbn [fst snd].
        destruct (existsb (String.eqb (fst a)) y); reflexivity.
    - (* ImportFrom *)
      destruct m as [m|]; [|apply IH].
      unfold future_module. destruct (String.eqb m "__future__"); [apply IH|].
      match goal with
      | |- context [py_for ns (mdl, names) ?G] =>
          replace (py_for ns (mdl, names) G) with (Ok (fold_left (add_from idx m) ns (mdl, names)) : res gi_state)
      end.
      + rewrite (surjective_pairing (fold_left (add_from idx m) ns (mdl, names))). apply IH.
      + symmetry. apply (py_for_ok (add_from idx m)). intros [x y] a.
        unfold add_from, is_star, add_entry, py_in, str_in. cbn [fst snd].
        destruct (String.eqb (fst a) "*"); [reflexivity|]. rewrite app3_assoc.
        destruct (existsb (String.eqb (m ++ "." ++ fst a)%string) y); reflexivity. }
  rewrite H. rewrite (surjective_pairing (get_imports_from 0 body ([], []))). reflexivity.
Qed.

Theorem gen_select_eq S body : gen_select S body = Ok (select S body).
Proof. unfold gen_select, select. rewrite gen_get_imports_eq. apply gen_find_modnames_eq. Qed.
