(* Transform: statement-by-statement model of what autoprofile does to the tree
   before compiling it.

     ImportFromTransformer                 run_module.py:54-65   (module mode only)
     ProfmodExtractor.run                  -> Ast/Select.v
     AstTreeProfiler._profile_ast_tree     ast_tree_profiler.py:95-140
     AstProfileTransformer                 ast_profile_transformer.py:39-154
     ast.fix_missing_locations             (CPython: a node without a location takes
                                            the location of the closest located ancestor,
                                            line 1 at module level; since the inserted
                                            statements copy the location of their import it
                                            no longer changes anything on a parsed tree)

   Only executable definitions here; the proofs are in TransformFacts.v. *)
From LP Require Import Prelude.Py Gen.RelImport Ast.AstLite Ast.AuxStr Ast.Select.

(* ---- ImportFromTransformer(module).visit(tree) ---------------------------------- *)
Fixpoint abs_stmt (m : string) (s : stmt) : stmt :=
  match s with
  | FuncDef a n ds b l => FuncDef a n ds (map (abs_stmt m) b) l
  | ClassDef n i b l => ClassDef n i (map (abs_stmt m) b) l
  | Compound i bs l => Compound i (map (fun p => (fst p, map (abs_stmt m) (snd p))) bs) l
  | ImportFrom md ns lv l =>
      if Z.eqb lv 0 then s
      else match get_module_from_importfrom lv md m with
           | Ok r => ImportFrom r ns 0 l
           | Err _ => s
           end
  | _ => s
  end.
Definition absolutize (m : string) (b : list stmt) : list stmt := map (abs_stmt m) b.

(* ---- _profile_ast_tree, first half: insert after the matched imports ------------- *)
Fixpoint insert_desc (k : Z) (l : list Z) : list Z :=
  match l with
  | [] => [k]
  | x :: r => if x <? k then k :: l else x :: insert_desc k r
  end.
(* sorted(list(d), reverse=True) *)
Definition sort_desc (l : list Z) : list Z := fold_right insert_desc [] l.

(* list.insert(i, x) for i >= 0 *)
Definition insert_at {A} (i : Z) (x : A) (l : list A) : list A :=
  firstn (Z.to_nat i) l ++ x :: skipn (Z.to_nat i) l.

Definition ins_state := (list stmt * list string)%type.   (* tree.body, profiled_imports *)

(* the location ast.copy_location takes from a statement *)
Definition stmt_line (s : stmt) : option Z :=
  match s with
  | FuncDef _ _ _ _ l | ClassDef _ _ _ l | Import _ l | ImportFrom _ _ _ l | Compound _ _ l | Other _ l => Some l
  | ProfCall _ loc => loc
  end.

(* for offset, name in enumerate(names, start=1): tree.body.insert(tree_index + offset, expr) *)
Fixpoint insert_names (i : Z) (loc : option Z) (names : list string) (st : ins_state) : ins_state :=
  match names with
  | [] => st
  | n :: r => insert_names (i + 1) loc r (insert_at i (ProfCall n loc) (fst st), snd st ++ [n])
  end.

Definition insert_step (d : dict) (st : ins_state) (k : Z) : ins_state :=
  match dict_get d k with
  | Some names =>
      (* import_node = tree.body[tree_index]; the keys are enumerate() indexes of tree.body, so a
         negative or too large key (wrap-around / IndexError in python) is unreachable: no-op *)
      if k <? 0 then st
      else match nth_error (fst st) (Z.to_nat k) with
           | Some s => insert_names (k + 1) (stmt_line s) names st
           | None => st
           end
  | None => st
  end.

Definition insert_regs (d : dict) (body : list stmt) : ins_state :=
  fold_left (insert_step d) (sort_desc (map fst d)) (body, []).

(* what the descending insertion amounts to (TransformFacts.insert_regs_expand): every
   statement is followed by one registration per name recorded for its index, in order,
   each carrying that statement's location *)
Fixpoint expand (f : Z -> list string) (i : Z) (body : list stmt) : list stmt :=
  match body with
  | [] => []
  | s :: r => s :: map (fun n => ProfCall n (stmt_line s)) (f i) ++ expand f (i + 1) r
  end.

(* ---- AstProfileTransformer -------------------------------------------------------- *)
(* names.name if names.asname is None else names.asname *)
Definition node_name (a : alias) : string :=
  match snd a with None => fst a | Some s => s end.

(* one iteration of _visit_import's loop; [loc] is the location of the import node *)
Definition visit_name (loc : option Z) (st : list stmt * list string) (a : alias) : list stmt * list string :=
  if is_star a then st
  else
    let nn := node_name a in
    if str_in nn (snd st) then st
    else (fst st ++ [ProfCall nn loc], snd st ++ [nn]).

(* the registration statements _visit_import appends after an import *)
Definition visit_import_names (loc : option Z) (pi : list string) (ns : list alias) : list stmt * list string :=
  fold_left (visit_name loc) ns ([], pi).

Definition add_deco (ds : list deco) : list deco :=
  if has_profile ds then ds else ds ++ [DName profile_name].

(* getattr(node, 'module', None) == '__future__' *)
Definition from_future (m : option string) : bool := ostr_eqb m (Some "__future__").

Fixpoint visit_stmt (imports : bool) (pi : list string) (s : stmt) : list stmt * list string :=
  match s with
  | FuncDef a n ds b l =>
      let '(b', pi') := smap (visit_stmt imports) pi b in
      ([FuncDef a n (add_deco ds) b' l], pi')
  | ClassDef n i b l =>
      let '(b', pi') := smap (visit_stmt imports) pi b in
      ([ClassDef n i b' l], pi')
  | Compound i bs l =>
      let '(bs', pi') :=
        smap (fun pi (p : Z * list stmt) =>
                let '(b', pi') := smap (visit_stmt imports) pi (snd p) in
                ([(fst p, b')], pi')) pi bs in
      ([Compound i bs' l], pi')
  | Import ns l =>
      if imports then let '(extra, pi') := visit_import_names (Some l) pi ns in (s :: extra, pi')
      else ([s], pi)
  | ImportFrom m ns _ l =>
      if imports && negb (from_future m)
      then let '(extra, pi') := visit_import_names (Some l) pi ns in (s :: extra, pi')
      else ([s], pi)
  | _ => ([s], pi)
  end.
Definition visit_body (imports : bool) (pi : list string) (b : list stmt) : list stmt * list string :=
  smap (visit_stmt imports) pi b.
Definition visit_bodies (imports : bool) (pi : list string) (bs : list (Z * list stmt))
  : list (Z * list stmt) * list string :=
  smap (fun pi (p : Z * list stmt) =>
          let '(b', pi') := smap (visit_stmt imports) pi (snd p) in
          ([(fst p, b')], pi')) pi bs.

(* ---- ast.fix_missing_locations ----------------------------------------------------- *)
Fixpoint fix_stmt (pl : Z) (s : stmt) : stmt :=
  match s with
  | FuncDef a n ds b l => FuncDef a n ds (map (fix_stmt l) b) l
  | ClassDef n i b l => ClassDef n i (map (fix_stmt l) b) l
  | Compound i bs l => Compound i (map (fun p => (fst p, map (fix_stmt (fst p)) (snd p))) bs) l
  | ProfCall n None => ProfCall n (Some pl)
  | _ => s
  end.
Definition fix_locs (pl : Z) (b : list stmt) : list stmt := map (fix_stmt pl) b.

(* ---- the whole pipeline ------------------------------------------------------------- *)
Definition profile_ast_tree (full imports : bool) (d : dict) (body : list stmt) : list stmt :=
  let st := insert_regs d body in
  let t2 := if full then fst (visit_body imports (snd st) (fst st)) else fst st in
  fix_locs 1 t2.

Record cfg := {
  c_full : bool;              (* the script itself is selected (_check_profile_full_script) *)
  c_imports : bool;           (* --prof-imports *)
  c_module : option string;   (* Some dotted position of the file: kernprof -m *)
  c_sel : list string         (* modnames_to_profile, the resolved selection *)
}.

(* the program the transformation starts from: the parsed file, with relative imports
   made absolute in module mode *)
Definition pre (c : cfg) (body : list stmt) : list stmt :=
  match c_module c with Some m => absolutize m body | None => body end.

(* AstTree(Module)Profiler.profile() *)
Definition transform (c : cfg) (body : list stmt) : list stmt :=
  let t0 := pre c body in
  profile_ast_tree (c_full c) (c_imports c) (select (c_sel c) t0) t0.

(* ---- executable property predicates (also evaluated on the implementation's output) - *)
Definition deco_once (f : fhead) : fhead :=
  Build_fhead (fh_async f) (fh_name f) (add_deco (fh_decos f)) (fh_line f).

Definition count_profile (ds : list deco) : Z := Z.of_nat (length (filter is_profile ds)).
Definition last_is_profile (ds : list deco) : bool :=
  match rev ds with d :: _ => is_profile d | [] => false end.

(* exactly one `profile` decorator, and it is the innermost one *)
Definition once_innermost (f : fhead) : bool :=
  (count_profile (fh_decos f) =? 1) && last_is_profile (fh_decos f).

(* every registration call that follows an import statement (directly or behind other
   registration calls) carries that import's line *)
Section Loc.
  Variable f : stmt -> bool.
  Fixpoint loc_list (cur : option Z) (b : list stmt) : bool :=
    match b with
    | [] => true
    | s :: r =>
        match s with
        | ProfCall _ loc =>
            (match cur with Some l => oz_eqb loc (Some l) | None => true end) && loc_list cur r
        | Import _ l => loc_list (Some l) r
        | ImportFrom _ _ _ l => loc_list (Some l) r
        | _ => f s && loc_list None r
        end
    end.
End Loc.
Fixpoint located_stmt (s : stmt) : bool :=
  match s with
  | FuncDef _ _ _ b _ => loc_list located_stmt None b
  | ClassDef _ _ b _ => loc_list located_stmt None b
  | Compound _ bs _ => forallb (fun p => loc_list located_stmt None (snd p)) bs
  | _ => true
  end.
Definition located (b : list stmt) : bool := loc_list located_stmt None b.

(* `from __future__ import ...` only at the beginning of the module (after an optional
   docstring; the converter gives string-constant expression statements negative ids) *)
Definition is_future (s : stmt) : bool :=
  match s with
  | ImportFrom (Some m) _ lv _ => String.eqb m "__future__" && Z.eqb lv 0
  | _ => false
  end.
Definition is_docstring (s : stmt) : bool := match s with Other i _ => i <? 0 | _ => false end.
Fixpoint drop_future (b : list stmt) : list stmt :=
  match b with
  | s :: r => if is_future s then drop_future r else b
  | [] => []
  end.
Definition future_ok (b : list stmt) : bool :=
  let b1 := match b with s :: r => if is_docstring s then r else b | [] => [] end in
  negb (existsb is_future (drop_future b1)).

(* no registration of `*` *)
Definition star_free (b : list stmt) : bool := negb (str_in "*" (regs b)).

Definition fhead_eqb (a b : fhead) : bool :=
  Bool.eqb (fh_async a) (fh_async b) && String.eqb (fh_name a) (fh_name b)
  && list_eqb deco_eqb (fh_decos a) (fh_decos b) && Z.eqb (fh_line a) (fh_line b).

Definition strs_subset (a b : list string) : bool := forallb (fun x => str_in x b) a.
Definition strs_seteq (a b : list string) : bool := strs_subset a b && strs_subset b a.
