#!/bin/sh
# Build the framework from files on disk only (offline): regenerate Gen/*.v from
# /repo, full .vo build of the Coq development, compile the clock shim.
set -e
cd "$(dirname "$0")"
/venv/bin/python - <<'PY'
import sys
sys.path.insert(0, '.')
from harness import core
r = core.regenerate()
for k, v in r.items():
    print('gen', k, v or 'ok')
core.gen_coqproject()
PY
if [ -f harness/vclock.c ]; then gcc -O2 -shared -fPIC -o harness/vclock.so harness/vclock.c -ldl; fi
cd coq && timeout 3000 make -j16 2>&1 | tail -5
