#!/venv/bin/python
"""Regenerate MANIFEST.json from the META blocks in tools/manifest_meta.json."""
import json
import os
import sys
HERE = os.path.dirname(os.path.dirname(os.path.abspath(__file__)))
meta = json.load(open(os.path.join(HERE, 'tools', 'manifest_meta.json')))
import glob
meta['checks'] = {os.path.basename(f)[:-5]: json.load(open(f)) for f in glob.glob(os.path.join(HERE, 'tools', 'meta', 'C*.json'))}
props = [json.loads(l)['id'] for l in open(os.path.join(HERE, 'properties.jsonl'))]
checks = []
for pid in props:
    m = meta['checks'].get(pid)
    if not m or pid not in meta.get('integrated', []):
        continue
    if not os.path.exists(os.path.join(HERE, 'harness', 'props', pid.lower() + '.py')):
        continue
    checks.append(dict(
        property_id=pid,
        quick_cmd='./check %s --tier quick' % pid,
        thorough_cmd='./check %s --tier thorough' % pid,
        evidence_file='/verif/evidence/%s.json' % pid,
        replay_cmd_template='./check %s --replay {path}' % pid,
        engine=m['engine'],
        level_claimed=dict(category=m.get('category', 'proof'), text=m['text'], design_ref=m.get('design_ref', 'DESIGN.md section 5')),
        level_note=m['note'],
        technique=m['technique']))
claimed = {c['property_id'] for c in checks}
na = [dict(property_id=p, reason=meta['not_applicable'].get(p, 'not yet built in this revision of /verif (planned in DESIGN.md section 5); no check is claimed'))
      for p in props if p not in claimed]
man = dict(version=1, setup_cmd=meta['setup_cmd'], hooks=meta['hooks'], engines=meta['engines'], checks=checks,
           notes=meta['notes'], not_applicable=na)
json.dump(man, open(os.path.join(HERE, 'MANIFEST.json'), 'w'), indent=1)
print('MANIFEST.json: %d checks, %d not_applicable' % (len(checks), len(na)))
