#!/bin/sh
# usage: tools/seedtest.sh <patch.diff> <ID> [quick|thorough]
# applies a seeded change to /repo, runs the check, and undoes the change straight afterwards
set -u
PATCH=$(readlink -f "$1"); ID=$2; TIER=${3:-quick}
cd /verif
git -C /repo diff --quiet || { echo "/repo has uncommitted changes"; exit 3; }
git -C /repo apply "$PATCH" || { echo "patch does not apply"; exit 3; }
./check "$ID" --tier "$TIER" 2>&1 | grep -v conda | grep -v '^KNOWN-FINDING' | tail -4 | cut -c1-300
RC=$?
git -C /repo checkout -- . ; git -C /repo clean -fdq
exit 0
