#!/venv/bin/python
"""Dev-time tool (never run by a check): merge findings/<P>.entries.json of the given properties into
known_findings.json.  usage: tools/mkfindings.py C05 C07 ..."""
import json
import os
import sys
HERE = os.path.dirname(os.path.dirname(os.path.abspath(__file__)))
k = json.load(open(os.path.join(HERE, 'known_findings.json')))
for prop in sys.argv[1:]:
    ents = json.load(open(os.path.join(HERE, 'findings', prop + '.entries.json')))
    for e in ents:
        k['findings'] = [x for x in k['findings'] if x['id'] != e['id']]
        k['findings'].append(e)
        assert os.path.exists(os.path.join(HERE, e['replay'])), e['replay']
json.dump(k, open(os.path.join(HERE, 'known_findings.json'), 'w'), indent=1)
print(len(k['findings']), 'findings')
