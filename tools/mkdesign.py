#!/venv/bin/python
"""Dev-time tool (never run by a check): regenerate the generated tables of DESIGN.md section 0
(0.2 findings, 0.4 seeded changes, 0.5 theorems) from known_findings.json, seeded/*/meta.json and
coq/theories/Props/*.v.  The tables sit between `<!-- gen:NAME -->` and `<!-- /gen:NAME -->` markers."""
import json
import os
import re
import sys
HERE = os.path.dirname(os.path.dirname(os.path.abspath(__file__)))


def findings_table():
    k = json.load(open(os.path.join(HERE, 'known_findings.json')))['findings']
    rows = ['| id | property | what failed | disposition |', '|---|---|---|---|']
    for f in sorted(k, key=lambda f: (f['status'] != 'fixed', f['id'])):
        what = f['what'].replace('|', '\\|').replace('\n', ' ')
        if len(what) > 260:
            what = what[:257] + '...'
        if f['status'] == 'fixed':
            c = f.get('commit') or f.get('commits') or ''
            if isinstance(c, list):
                c = ', '.join(c)
            disp = 'fixed ' + str(c)
        else:
            rep = (f.get('repair') or '').replace('|', '\\|').replace('\n', ' ')
            disp = 'known: ' + (rep[:200] + ('...' if len(rep) > 200 else ''))
        rows.append('| %s | %s | %s | %s |' % (f['id'], f['property'], what, disp))
    nf = sum(1 for f in k if f['status'] == 'fixed')
    rows.append('')
    rows.append('The table is generated from `known_findings.json` (%d entries: %d repaired by `fix:` commits in `/repo`, %d recorded).'
                % (len(k), nf, len(k) - nf))
    return '\n'.join(rows)


def seeded_table():
    rows = ['| seed | files changed | caught by | checks that do not see it (quick) |', '|---|---|---|---|']
    sd = os.path.join(HERE, 'seeded')
    n = ncaught = 0
    for key in sorted(os.listdir(sd)):
        mp = os.path.join(sd, key, 'meta.json')
        if not os.path.exists(mp):
            continue
        m = json.load(open(mp))
        patch = open(os.path.join(sd, key, 'patch.diff')).read()
        files = sorted(set(os.path.basename(x) for x in re.findall(r'^\+\+\+ b/(\S+)', patch, re.M)))
        cr = m.get('checks_run') or {}
        caught = []
        for c in cr.get('caught_by', []):
            mm = re.match(r'(C\d\d) (quick|thorough): caught(.*)', c)
            if mm:
                caught.append(mm.group(1) + (' (thorough)' if mm.group(2) == 'thorough' else '') + (' nfi' if 'no-failing' in mm.group(3) else ''))
            else:
                caught.append(c)
        missed = [c.split()[0] for c in cr.get('missed_by', [])]
        n += 1
        ncaught += bool(caught)
        rows.append('| %s | %s | %s | %s |' % (key, ', '.join(files), ', '.join(dict.fromkeys(caught)) or '**none**', ', '.join(dict.fromkeys(missed)) or '-'))
    rows.append('')
    rows.append('%d seeded changes, %d caught by at least one check.' % (n, ncaught))
    return '\n'.join(rows)


def theorems_table():
    rows = ['| property | # | main theorems | partial | refuted |', '|---|---|---|---|---|']
    pd = os.path.join(HERE, 'coq', 'theories', 'Props')
    for fn in sorted(os.listdir(pd)):
        if not re.match(r'C\d\d\.v$', fn):
            continue
        txt = open(os.path.join(pd, fn)).read()
        txt = re.sub(r'\(\*.*?\*\)', '', txt, flags=re.S)
        names = re.findall(r'^\s*(?:Theorem|Lemma|Corollary)\s+(\w+)', txt, re.M)
        main = [x for x in names if not x.endswith(('_partial', '_refuted', '_nonvacuous'))]
        part = [x for x in names if x.endswith('_partial')]
        ref = [x for x in names if x.endswith('_refuted')]
        q = lambda xs: ', '.join('`%s`' % x for x in xs) or '-'
        rows.append('| %s | %d | %s | %s | %s |' % (fn[:-2], len(names), q(main), q(part), q(ref)))
    return '\n'.join(rows)


GEN = dict(findings=findings_table, seeded=seeded_table, theorems=theorems_table)
p = os.path.join(HERE, 'DESIGN.md')
s = open(p).read()
for name, fn in GEN.items():
    a, b = '<!-- gen:%s -->' % name, '<!-- /gen:%s -->' % name
    if a not in s or b not in s:
        sys.exit('markers for %s missing in DESIGN.md' % name)
    i, j = s.index(a) + len(a), s.index(b)
    s = s[:i] + '\n' + fn() + '\n' + s[j:]
open(p, 'w').write(s)
print('DESIGN.md tables regenerated')
