#!/venv/bin/python
"""Confirm a seeded change in its scratch worktree: with the change the pinned tests still pass and the
demonstration fails; without it the demonstration passes.  usage: confirm_seed.py <worktree> <seed dir> -> JSON line"""
import json, os, subprocess, sys, xml.etree.ElementTree as ET, tempfile
wt, sd = sys.argv[1], sys.argv[2]
base = json.load(open('/root/.vp/BASELINE.json'))
env = dict(os.environ, PYTHONPATH=wt, PYTHONHASHSEED='0')
env.pop('LINE_PROFILE', None)

def sh(cmd, **kw):
    return subprocess.run(cmd, cwd=wt, env=env, stdout=subprocess.PIPE, stderr=subprocess.STDOUT, text=True, **kw)

def build():
    r = sh(['/venv/bin/python', 'setup.py', 'build_ext', '--inplace'])
    return r.returncode == 0

def tests():
    fd, path = tempfile.mkstemp(suffix='.xml', dir='/var/tmp'); os.close(fd)
    sh(['/venv/bin/python', '-m', 'pytest', '-q', '-p', 'no:cacheprovider', '--timeout=900', '--continue-on-collection-errors', '--junitxml=' + path, 'tests'])
    passed = set()
    for tc in ET.parse(path).getroot().iter('testcase'):
        if not any(ch.tag in ('failure', 'error', 'skipped') for ch in tc):
            passed.add('%s::%s' % (tc.get('classname'), tc.get('name')))
    os.unlink(path)
    return [t for t in base['stable_pass'] if t not in passed]

def demo():
    r = sh(['/venv/bin/python', os.path.join(sd, 'demo.py')], timeout=600)
    return r.returncode, r.stdout[-600:]

patch = os.path.join(sd, 'patch.diff')
pyx = any(x in open(patch).read() for x in ('.pyx', '.c b/', '.pxd'))
res = dict(seed=sd)
sh(['git', 'checkout', '--', '.'])
r = sh(['git', 'apply', patch]); res['applies'] = r.returncode == 0
if pyx: res['builds'] = build()
res['missing_tests_with_seed'] = tests()
rc, out = demo(); res['demo_with_seed_rc'] = rc; res['demo_with_seed_tail'] = out[-300:]
sh(['git', 'checkout', '--', '.'])
if pyx: build()
rc, out = demo(); res['demo_without_seed_rc'] = rc
res['confirmed'] = bool(res['applies'] and not res['missing_tests_with_seed'] and res['demo_with_seed_rc'] != 0 and res['demo_without_seed_rc'] == 0)
print(json.dumps(res))
