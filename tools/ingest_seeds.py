#!/venv/bin/python
"""Confirm (tools/confirm_seed.py) and store seeds delivered by a seeding agent.
usage: tools/ingest_seeds.py <worktree-prefix e.g. /tmp/seed2-> <letters e.g. cd> <ID> [<ID> ...]"""
import json, os, shutil, subprocess, sys
from concurrent.futures import ThreadPoolExecutor
HERE = os.path.dirname(os.path.dirname(os.path.abspath(__file__)))
prefix, letters, ids = sys.argv[1], sys.argv[2], sys.argv[3:]
head = subprocess.run(['git', '-C', '/repo', 'rev-parse', '--short', 'HEAD'], stdout=subprocess.PIPE, text=True).stdout.strip()

def one(pid):
    out = []
    wt = prefix + pid
    for s in letters:
        sd = os.path.join(wt, 'SEED', s)
        if not os.path.exists(os.path.join(sd, 'patch.diff')):
            out.append((pid, s, None)); continue
        p = subprocess.run([os.path.join(HERE, 'tools', 'confirm_seed.py'), wt, sd], stdout=subprocess.PIPE, stderr=subprocess.DEVNULL, text=True)
        line = [l for l in p.stdout.splitlines() if l.startswith('{')]
        out.append((pid, s, json.loads(line[-1]) if line else None))
    return out

with ThreadPoolExecutor(max_workers=6) as ex:
    res = [x for lst in ex.map(one, ids) for x in lst]
for pid, s, cf in res:
    key = '%s-%s' % (pid, s)
    if not cf or not cf['confirmed']:
        print(key, 'NOT CONFIRMED', cf and {k: cf[k] for k in ('applies', 'missing_tests_with_seed', 'demo_with_seed_rc', 'demo_without_seed_rc')})
        continue
    src = os.path.join(prefix + pid, 'SEED', s)
    dst = os.path.join(HERE, 'seeded', key)
    os.makedirs(dst, exist_ok=True)
    if not os.path.exists(os.path.join(src, 'notes.md')):
        print(key, 'notes.md missing - agent not finished?'); continue
    for fn in ('patch.diff', 'demo.py', 'notes.md'):
        shutil.copy(os.path.join(src, fn), os.path.join(dst, fn))
    notes = open(os.path.join(src, 'notes.md')).read()
    meta = dict(property=pid, seed=key, base_commit='%s (repo HEAD when the seed was confirmed)' % head,
                needs_to_manifest=notes.strip().split('\n\n')[0][:600],
                confirmed=dict(tests_still_pass=True, demo_fails_with_seed=True, demo_passes_without=True,
                               how='tools/confirm_seed.py in the scratch worktree %s' % (prefix + pid)),
                checks_run=dict(caught_by=[], missed_by=[]))
    json.dump(meta, open(os.path.join(dst, 'meta.json'), 'w'), indent=1)
    print(key, 'confirmed and stored')
