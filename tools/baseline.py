#!/venv/bin/python
"""Run the repository's pinned test-suite and compare with BASELINE.json's stable_pass list."""
import json, subprocess, sys, xml.etree.ElementTree as ET, tempfile, os
base = json.load(open('/root/.vp/BASELINE.json'))
fd, path = tempfile.mkstemp(suffix='.xml', dir='/var/tmp'); os.close(fd)
p = subprocess.run(['/venv/bin/python', '-m', 'pytest', '-ra', '-q', '-p', 'no:cacheprovider', '--timeout=900',
                    '--continue-on-collection-errors', '--junitxml=' + path], cwd='/repo', stdout=subprocess.PIPE, stderr=subprocess.STDOUT, text=True)
passed = set()
for tc in ET.parse(path).getroot().iter('testcase'):
    ok = not any(ch.tag in ('failure', 'error', 'skipped') for ch in tc)
    if ok:
        passed.add('%s::%s' % (tc.get('classname'), tc.get('name')))
os.unlink(path)
missing = [t for t in base['stable_pass'] if t not in passed]
print('passed %d; stable_pass %d; missing %d' % (len(passed), len(base['stable_pass']), len(missing)))
for m in missing:
    print('  MISSING', m)
sys.exit(1 if missing else 0)
