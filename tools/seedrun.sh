#!/bin/sh
# usage: tools/seedrun.sh <lane> <seed-key> <ID> [tier]   - run a check against a seeded change WITHOUT touching /repo:
# a scratch worktree of /repo HEAD (/tmp/seedrun-<lane>) gets the patch, a private copy of /verif runs the check on it
set -u
LANE=$1; KEY=$2; ID=$3; TIER=${4:-quick}
WT=/tmp/seedrun-$LANE; VC=/var/tmp/lpverif/verif-seedrun-$LANE
[ -d $WT ] || git -C /repo worktree add -q --detach $WT HEAD
git -C $WT checkout -q --detach $(git -C /repo rev-parse HEAD); git -C $WT checkout -q -- . ; git -C $WT clean -fdq
mkdir -p $VC; rsync -a --delete --exclude .git --exclude replays /verif/ $VC/
P=/verif/seeded/$KEY/patch.diff; [ -f /verif/seeded/$KEY/patch.ported.diff ] && P=/verif/seeded/$KEY/patch.ported.diff
if [ "$KEY" != "HEAD" ]; then git -C $WT apply $P || { echo "$KEY $ID PATCH-DOES-NOT-APPLY"; exit 0; }; fi
(cd $VC && VERIF_REPO=$WT ./check $ID --tier $TIER 2>&1 | grep -v conda | grep -v '^KNOWN-FINDING') > /var/tmp/lpverif/seedrun-$LANE.last.log
OUT=$(tail -2 /var/tmp/lpverif/seedrun-$LANE.last.log | tr '\n' ' ' | cut -c1-330)
case "$OUT" in *Error*) cp /var/tmp/lpverif/seedrun-$LANE.last.log /var/tmp/lpverif/seedrun-error-$KEY-$ID.log;; esac
echo "$KEY $ID :: $OUT"
git -C $WT checkout -q -- . ; git -C $WT clean -fdq
