#!/venv/bin/python
"""Run every seeded change against its property's check (and extra checks named on the command line as
KEY:ID pairs), in parallel lanes, and record the outcome in seeded/<key>/meta.json.
usage: tools/seedmatrix.py [-j N] [KEY ...] [KEY:ID ...]"""
import json, os, subprocess, sys
from concurrent.futures import ThreadPoolExecutor
import queue
HERE = os.path.dirname(os.path.dirname(os.path.abspath(__file__)))
args = sys.argv[1:]
nj = 3
if args[:1] == ['-j']:
    nj = int(args[1]); args = args[2:]
keys = sorted(os.listdir(os.path.join(HERE, 'seeded')))
EXTRA = {'C01-b': ['C13'], 'C02-a': ['C13'], 'C03-b': ['C05', 'C13'], 'C16-b': ['C01', 'C05'], 'C01-a': ['C04']}
jobs = []
sel = [a for a in args if ':' not in a]
for k in keys:
    if sel and k not in sel:
        continue
    jobs.append((k, k.split('-')[0]))
    for x in EXTRA.get(k, []):
        jobs.append((k, x))
for a in args:
    if ':' in a:
        jobs.append(tuple(a.split(':')))
# lanes are shared by every invocation on this machine: each is claimed with a lock file for the whole run
import fcntl, time
# a "caught" only means something when the check passes on the unchanged tree: every property that is used gets a
# baseline run on HEAD first (same lanes, same private copy)
jobs = [('HEAD', pid) for pid in sorted(set(p for _, p in jobs))] + jobs
lanes = queue.Queue()
_held = []
os.makedirs('/var/tmp/lpverif', exist_ok=True)
while len(_held) < nj:
    for i in range(60, 100):
        f = open('/var/tmp/lpverif/lane-%d.lock' % i, 'w')
        try:
            fcntl.flock(f, fcntl.LOCK_EX | fcntl.LOCK_NB)
        except OSError:
            f.close()
            continue
        _held.append(f)
        lanes.put(i)
        if len(_held) >= nj:
            break
    else:
        time.sleep(5)

def run(job):
    k, pid = job
    lane = lanes.get()
    try:
        p = subprocess.run([os.path.join(HERE, 'tools', 'seedrun.sh'), str(lane), k, pid], stdout=subprocess.PIPE, stderr=subprocess.STDOUT, text=True)
        line = [l for l in p.stdout.splitlines() if l.startswith(k)]
        return job, (line[-1] if line else p.stdout[-300:])
    finally:
        lanes.put(lane)

with ThreadPoolExecutor(max_workers=nj) as ex:
    results = list(ex.map(run, jobs))
by = {}
head_ok = {}
for (k, pid), line in results:
    if k == 'HEAD':
        head_ok[pid] = (' OK ' in line or ':: OK' in line)
        print(line)
for (k, pid), line in results:
    if k == 'HEAD':
        continue
    print(line)
    if not head_ok.get(pid, False):
        by.setdefault(k, []).append((pid, 'invalid: the check does not pass on the unchanged tree'))
        continue
    verdict = 'patch does not apply to the current HEAD' if 'PATCH-DOES-NOT-APPLY' in line else \
        ('caught (no-failing-input-found)' if 'no-failing-input-found' in line else ('caught' if 'VIOLATION' in line else ('missed' if ' OK ' in line or ':: OK' in line else 'error: ' + line[-120:])))
    by.setdefault(k, []).append((pid, verdict))
for k, lst in by.items():
    mp = os.path.join(HERE, 'seeded', k, 'meta.json')
    if not os.path.exists(mp):
        continue
    m = json.load(open(mp))
    prev = m.get('checks_run') or {}
    done = set(p for p, v in lst)
    keep = lambda xs: [x for x in (xs or []) if x.split()[0].rstrip(':') not in done]
    lst_c = keep(prev.get('caught_by')); lst_m = keep(prev.get('missed_by')); lst_o = keep(prev.get('other'))
    m['checks_run'] = dict(tool='tools/seedrun.sh (scratch worktree of /repo HEAD + private copy of /verif, quick tier)',
                           caught_by=lst_c + ['%s quick: %s' % (p, v) for p, v in lst if v.startswith('caught')],
                           missed_by=lst_m + ['%s quick' % p for p, v in lst if v == 'missed'],
                           other=lst_o + ['%s: %s' % (p, v) for p, v in lst if not v.startswith('caught') and v != 'missed'])
    json.dump(m, open(mp, 'w'), indent=1)
